(* C01 — restructuring preserves every execution path.
   Per instance (input graph g, exported hierarchy h): if the checker accepts,
   then for ALL decision lists the walk of h (flat: rw = false; region by
   region: rw = true) visits the original blocks of g in the same order and
   ends the same way.  Nothing else is in this file. *)
From Coq Require Import ZArith List.
Import ListNotations.
From V Require Import Valid.Hier Valid.Walk Valid.FlatRegion Valid.Run.
From Coq Require Import Lia.
From V Require Import Model.Pipe Model.PipeBounded Model.PipeBounded4 Model.Graph Model.Edits Model.Edits2 Model.JoinPath Model.Refine Model.CbPath Model.LoopEdit Model.LoopSpec Model.LoopPath Model.LoopPath2 Model.IbPath Model.Extract Model.ExtractPath Model.CbHier Model.CbHierPath.

Theorem C01_checker_sound :
  forall rw g h, c01_check rw g h = true -> PathEq rw g h.
Proof. exact c01_check_sound. Qed.
Print Assumptions C01_checker_sound.

Theorem C01_simulation_sound :
  forall h resolve strict g fuel R entry,
    sim_check h resolve strict g fuel R entry = true ->
    forall ds, WTrace h resolve strict entry nil ds
                      (fst (otrace g entry ds)) (snd (otrace g entry ds)).
Proof. exact sim_check_sound. Qed.
Print Assumptions C01_simulation_sound.

Theorem C01_driver_columns :
  forall rows g h, decode rows = Some (g, h) ->
    (col 1 rows = 1%Z -> PathEq false g h) /\ (col 2 rows = 1%Z -> PathEq true g h).
Proof.
  intros rows g h Hd. destruct (run_instance_sound rows g h Hd) as [A [B _]]. split; assumption.
Qed.
Print Assumptions C01_driver_columns.

(* bounded form over the MODEL of the whole pipeline (Model/Pipe.v, tied to the code by exact
   correspondence): for every closed graph with at most 4 blocks the model completes each stage
   and both walks of its result are path-equivalent to the input, for all decision lists *)
Theorem C01_pipeline_model_le4 :
  forall n g, (n <= 4)%nat -> In g (closed_graphs n) ->
    exists s0 s1 s2,
      p_stage nmU 0 (init_state g) topU = POk s0 /\ p_stage nmU 1 s0 topU = POk s1 /\
      p_stage nmU 2 s1 topU = POk s2 /\
      (forall s, s = s0 \/ s = s1 \/ s = s2 ->
         PathEq false (orig_of g) (to_hier s topU) /\ PathEq true (orig_of g) (to_hier s topU)).
Proof.
  intros n g Hn Hin. destruct (pipeline_good_le4 n g Hn Hin) as [s0 [s1 [s2 [A0 [B0 [A1 [B1 [A2 B2]]]]]]]].
  exists s0, s1, s2. split; [exact A0|]. split; [exact A1|]. split; [exact A2|].
  intros s Hs. destruct Hs as [Hs|[Hs|Hs]]; subst s.
  - split; apply B0.
  - split; apply B1.
  - split; apply B2.
Qed.
Print Assumptions C01_pipeline_model_le4.

(* the first stage, for ALL graphs (no bound): closing the graph keeps every execution path.
   Over the model Edits.join_returns (tied to SCFG.join_returns by the order-exact correspondence
   of C14 and by the pipeline model): for every graph of original blocks with distinct names, whose
   targets exist and which has a unique entry, the flat walk of the closed graph passes through the
   original blocks exactly as the input under every decision list *)
Theorem C01_closing_preserves_paths :
  forall g top fresh en g',
    Input g top fresh -> oentry (og g) = Some en -> join_returns g fresh 3 = Ok g' ->
    PathEq false (og g) (ehier top g').
Proof. exact join_returns_path_eq. Qed.
Print Assumptions C01_closing_preserves_paths.

(* header unification, for ALL graphs (no bound): insert_block_and_control_blocks keeps every walk.
   Over the model Edits2.insert_cb (tied to the code by the order-exact correspondence of C14 and by
   the pipeline model): for every flat graph of original and synthetic blocks whose targets exist,
   every choice of predecessors with distinct successors (original blocks, plain, assigning and
   branching synthetic blocks whose tables have distinct keys - their tables are rewritten, Model/TableSpec.v),
   successors S among the blocks, fresh assignment names, a fresh head and a control variable no
   block mentions: from every original block, under every decision list and every pair of
   environments that agree outside the new variable, the flat walk of the edited graph visits the
   same original blocks in the same order and ends the same way *)
Theorem C01_header_unification_preserves_paths :
  forall g top new var preds Ss names cls g',
    NoDup preds /\ ~ In new preds ->
    (NoDup names /\ forall a, In a names ->
        efind g a = None /\ a <> new /\ ~ In a preds /\ ~ In a Ss /\ a <> top) ->
    (forall p b, In p preds -> efind g p = Some b ->
        NoDup (e_jt b) /\ (forall a, In a names -> ~ In a (e_jt b)) /\
        (forall c v t, e_kind b = EBranch c v t -> NoDup (map fst t))) ->
    ~ In top (ekeys g) /\ top <> new ->
    efind g new = None ->
    (forall x b t, efind g x = Some b -> In t (e_jt b) -> In t (ekeys g)) ->
    (forall s, In s Ss -> In s (ekeys g)) ->
    (forall x b, efind g x = Some b ->
        match e_kind b with
        | EAssign a => forall p, In p a -> fst p <> var
        | EBranch _ v _ => v <> var
        | EPlain _ => True
        end) ->
    insert_cb g new var preds Ss names cls = Ok g' ->
    forall n e e' ds tr st,
      (exists b, efind g n = Some b /\ e_kind b = EPlain 100) ->
      E (Fv var) e e' ->
      WTrace (ehier top g) (resolve_flat (ehier top g)) false n e ds tr st ->
      WTrace (ehier top g') (resolve_flat (ehier top g')) false n e' ds tr st.
Proof. intros g top new var preds Ss names cls g'. exact (insert_cb_keeps_walks g top new var preds Ss names cls g' false). Qed.
Print Assumptions C01_header_unification_preserves_paths.

(* loop rotation, for ALL graphs (no bound), loops with one header: the part of
   loop_restructure_helper after the early return (model LoopEdit.loop_rotate, tied to the code by direct
   calls compared order-exactly) keeps every walk.  For every flat graph whose targets exist, every head,
   every list of distinct exits among the blocks, every list of distinct blocks to process (no branching
   synthetic blocks, no declared back edges, distinct successors), every classification of arcs to the
   head as back edges, fresh names for the assignment blocks, the latch and the exit branch, two fresh
   control variables: from every original block, under every decision list, the flat walk of the rotated
   graph visits the same original blocks in the same order and ends the same way *)
Theorem C01_loop_rotation_preserves_paths :
  forall g top hd exits todo isback latch sexit ev bv names g',
    let needs := match exits with _ :: _ :: _ => true | _ => false end in
    loop_rotate g hd [hd] exits todo false [] isback latch sexit ev bv names = Ok g' ->
    (NoDup todo /\
     forall p, In p todo -> exists b, efind g p = Some b /\ nonbranch b /\ e_be b = [] /\ NoDup (e_jt b) /\
                                      (forall a, In a names -> ~ In a (e_jt b))) ->
    (NoDup names /\
     forall a, In a names -> efind g a = None /\ ~ In a todo /\ a <> latch /\ a <> sexit /\ a <> top) ->
    efind g latch = None /\ latch <> top /\ ~ In latch todo ->
    (needs = true -> efind g sexit = None /\ sexit <> latch /\ sexit <> top /\ ~ In sexit todo) ->
    NoDup exits /\ (forall x, In x exits -> In x (ekeys g)) /\ ~ In hd exits ->
    In hd (ekeys g) -> ~ In top (ekeys g) ->
    (forall x b t, efind g x = Some b -> In t (e_jt b) -> In t (ekeys g)) ->
    (ev <> bv /\ forall x b, efind g x = Some b ->
        match e_kind b with
        | EAssign a => forall p, In p a -> fst p <> ev /\ fst p <> bv
        | EBranch _ v _ => v <> ev /\ v <> bv
        | EPlain _ => True
        end) ->
    forall n e e' ds tr st,
      (exists b, efind g n = Some b /\ e_kind b = EPlain 100) ->
      E (Fl ev bv) e e' ->
      WTrace (ehier top g) (resolve_flat (ehier top g)) false n e ds tr st ->
      WTrace (ehier top g') (resolve_flat (ehier top g')) false n e' ds tr st.
Proof.
  intros g top hd exits todo isback latch sexit ev bv names g' needs.
  exact (loop_rotate_keeps_walks g top hd exits todo isback latch sexit ev bv names g' false).
Qed.
Print Assumptions C01_loop_rotation_preserves_paths.

(* loop rotation with SEVERAL headers, for ALL graphs (no bound): header unification followed by the
   rotation on the unified head, whose variable doubles as the exit variable, keeps every walk of the
   graph it started from.  Hypotheses: those of the two theorems above, for the original graph; the
   head is among the processed blocks and none of its arcs counts as a back edge (it dominates the
   headers); every header is entered from an entry block *)
Theorem C01_multi_header_loop_rotation_preserves_paths :
  forall g top H v entries headers names_cb g1 exits todo header_tbl isback latch sexit bv names g2,
    let needs := match exits with _ :: _ :: _ => true | _ => false end in
    insert_cb g H v entries headers names_cb C_HEAD = Ok g1 ->
    efind g1 H = Some (mkE headers [] (EBranch C_HEAD v header_tbl)) ->
    loop_rotate g1 H headers exits todo true header_tbl isback latch sexit v bv names = Ok g2 ->
    NoDup entries /\ ~ In H entries ->
    (NoDup names_cb /\ forall a, In a names_cb ->
        efind g a = None /\ a <> H /\ ~ In a entries /\ ~ In a headers /\ a <> top) ->
    (forall p b, In p entries -> efind g p = Some b ->
        NoDup (e_jt b) /\ (forall a, In a names_cb -> ~ In a (e_jt b)) /\
        (forall c w t, e_kind b = EBranch c w t -> NoDup (map fst t))) ->
    ~ In top (ekeys g) /\ top <> H ->
    efind g H = None ->
    (forall x b t, efind g x = Some b -> In t (e_jt b) -> In t (ekeys g)) ->
    NoDup headers /\ (forall s, In s headers -> In s (ekeys g)) /\ (forall s, In s headers -> ~ In s exits) ->
    (v <> bv /\ forall x b, efind g x = Some b ->
        match e_kind b with
        | EAssign a => forall p, In p a -> fst p <> v /\ fst p <> bv
        | EBranch _ w _ => w <> v /\ w <> bv
        | EPlain _ => True
        end) ->
    (NoDup todo /\ forall p, In p todo -> p = H \/
        (~ In p entries /\ exists b, efind g p = Some b /\ nonbranch b /\ e_be b = [] /\ NoDup (e_jt b) /\
                                     (forall a, In a names -> ~ In a (e_jt b)))) ->
    (forall t, In t headers -> isback H t = false) ->
    (NoDup names /\ forall a, In a names ->
        efind g a = None /\ ~ In a names_cb /\ a <> H /\ ~ In a todo /\ a <> latch /\ a <> sexit /\ a <> top) ->
    efind g latch = None /\ ~ In latch names_cb /\ latch <> H /\ latch <> top /\ ~ In latch todo ->
    (needs = true ->
        efind g sexit = None /\ ~ In sexit names_cb /\ sexit <> H /\ sexit <> latch /\ sexit <> top /\ ~ In sexit todo) ->
    NoDup exits /\ (forall x, In x exits -> In x (ekeys g)) ->
    (forall t, In t headers -> exists p b k, In p entries /\ efind g p = Some b /\ nth_error (e_jt b) k = Some t) ->
    forall n e e' ds tr st,
      (exists b, efind g n = Some b /\ e_kind b = EPlain 100) ->
      E (Fu v bv) e e' ->
      WTrace (ehier top g) (resolve_flat (ehier top g)) false n e ds tr st ->
      WTrace (ehier top g2) (resolve_flat (ehier top g2)) false n e' ds tr st.
Proof.
  intros g top H v entries headers names_cb g1 exits todo header_tbl isback latch sexit bv names g2 needs.
  exact (unified_rotation_keeps_walks g top H v entries headers names_cb g1 exits todo header_tbl isback
           latch sexit bv names g2 false).
Qed.
Print Assumptions C01_multi_header_loop_rotation_preserves_paths.

(* the plain insertion with ONE successor, for ALL graphs (no bound): what join_tails_and_exits and
   insert_SyntheticFill do during branch restructuring once the tail has a single header.
   Edits.insert_block g new P [e] cls (tied to the code by C14's order-exact correspondence) keeps every
   walk: an arc p -> e becomes p -> new -> e, the new synthetic block doing nothing *)
Theorem C01_single_successor_insertion_preserves_paths :
  forall g top new e0 preds cls g',
    insert_block g new preds [e0] cls = Ok g' ->
    NoDup preds /\ ~ In new preds ->
    (forall p b, In p preds -> efind g p = Some b ->
        NoDup (e_jt b) /\ ~ In new (e_jt b) /\ (forall c w t, e_kind b = EBranch c w t -> NoDup (map fst t))) ->
    efind g new = None /\ new <> top /\ cls <> 100%Z ->
    ~ In top (ekeys g) -> In e0 (ekeys g) ->
    (forall x b t, efind g x = Some b -> In t (e_jt b) -> In t (ekeys g)) ->
    forall n e e' ds tr st,
      (exists b, efind g n = Some b /\ e_kind b = EPlain 100) ->
      E Fn e e' ->
      WTrace (ehier top g) (resolve_flat (ehier top g)) false n e ds tr st ->
      WTrace (ehier top g') (resolve_flat (ehier top g')) false n e' ds tr st.
Proof.
  intros g top new e0 preds cls g'.
  exact (insert_block_one_keeps_walks g top new e0 preds cls g' false).
Qed.
Print Assumptions C01_single_successor_insertion_preserves_paths.

(* region extraction, for ALL hierarchies (no bound): Extract.extract - the line-by-line model of
   extract_region, compared with the implementation on every call the pipeline makes - keeps the flat
   walk.  For every hierarchy in which headers lie below their regions and every successor of every
   block resolves, every level, every set of blocks with header hd (below the level) and every fresh
   region name: a successor is kept or, where it was hd, becomes the new region, whose header is hd;
   tables of branching entries follow; so every successor resolves to the same block as before *)
Theorem C01_region_extraction_preserves_paths :
  forall hd rname h lvl blocks entries ex rk h',
    rname <> hd ->
    extract h lvl blocks entries hd ex rk rname = XOk h' ->
    find h rname = None ->
    (forall x n, find h x = Some n -> is_region n = false -> Good hd rname n) ->
    (exists nl, find h lvl = Some nl /\ is_region nl = true) ->
    (exists rank : name -> nat,
       (forall x n rk0 h0 e0 c0 p0 o0, find h x = Some n -> n_kind n = KRegion rk0 h0 e0 c0 p0 o0 -> (rank h0 < rank x)%nat) /\
       (rank hd < rank lvl)%nat) ->
    (forall x n t, find h x = Some n -> is_region n = false -> In t (n_jt n) -> enter_flat h (S (length h)) t <> None) ->
    forall n e e' ds tr st,
      (exists b p, find h n = Some b /\ n_kind b = KOrig p) ->
      E Fx e e' ->
      WTrace h (resolve_flat h) false n e ds tr st -> WTrace h' (resolve_flat h') false n e' ds tr st.
Proof.
  intros hd rname h lvl blocks entries ex rk h' Hne.
  exact (extract_keeps_walks hd rname Hne h lvl blocks entries ex rk h' false).
Qed.
Print Assumptions C01_region_extraction_preserves_paths.

(* header unification at ANY level of a hierarchy and with ANY kind of predecessor, for ALL hierarchies
   (no bound): CbHier.insert_cb_h - the line-by-line model of insert_block_and_control_blocks on
   hierarchies, compared with the code on every call the pipeline makes (nested levels, predecessors
   that are regions or branching synthetic blocks) - keeps the flat walk.  A region predecessor has the
   renaming pushed down its exiting blocks (update_exiting); the theorem follows the arc as control
   really takes it, from the block at the bottom *)
Theorem C01_header_unification_any_level_preserves_paths :
  forall h lvl new var preds Ss names h',
    insert_cb_h h lvl new var preds Ss names = XOk h' ->
    (exists rank : name -> nat, forall x n, find h x = Some n -> (rank (n_parent n) < rank x)%nat) ->
    (exists nl0, find h lvl = Some nl0 /\ is_region nl0 = true) ->
    (forall p, In p preds -> p <> lvl /\ exists n0, find h p = Some n0 /\ n_parent n0 = lvl) ->
    (NoDup names /\ forall a, In a names -> find h a = None /\ ~ In a Ss /\ a <> new) ->
    find h new = None ->
    (forall x n, find h x = Some n -> is_region n = false ->
       NoDup (n_jt n) /\ (forall a, In a names -> ~ In a (n_jt n)) /\
       (forall c v tbl, n_kind n = KBranch c v tbl -> NoDup (map fst tbl) /\ v <> var) /\
       (forall a, n_kind n = KAssign a -> forall p, In p a -> fst p <> var)) ->
    (forall x n t, find h x = Some n -> is_region n = false -> In t (n_jt n) -> enter_flat h (S (length h)) t <> None) ->
    (forall s, In s Ss -> enter_flat h (S (length h)) s <> None) ->
    forall n e e' ds tr st,
      (exists b p, find h n = Some b /\ n_kind b = KOrig p) ->
      E (Fc var) e e' ->
      WTrace h (resolve_flat h) false n e ds tr st -> WTrace h' (resolve_flat h') false n e' ds tr st.
Proof.
  intros h lvl new var preds Ss names h'. exact (insert_cb_h_keeps_walks h lvl new var preds Ss names h' false).
Qed.
Print Assumptions C01_header_unification_any_level_preserves_paths.

(* the generic reason (Model/Refine.v): an edit keeps every walk when each old block keeps its kind and
   arity and each way of leaving it leads, through a bridge that only touches fresh variables, to the
   block it led to before *)
Theorem C01_refinement_keeps_walks :
  forall h h' r r' strict (F : Z -> Prop) (Old : name -> Prop),
    (forall x, Old x -> exists b b', find h x = Some b /\ find h' x = Some b' /\ Compat h' r r' strict F Old x b b') ->
    forall n e ds tr st, WTrace h r strict n e ds tr st ->
    forall e', Old n -> (exists b p, find h n = Some b /\ n_kind b = KOrig p) -> E F e e' ->
    WTrace h' r' strict n e' ds tr st.
Proof. exact walk_refines. Qed.
Print Assumptions C01_refinement_keeps_walks.

Import ListNotations.
(* non-vacuity: 1 -> (2, 3), 2 and 3 return; fresh name 9, top region 8: the graph is closed and its
   hypotheses hold (evaluated), and the verified checker agrees on the result *)
Example C01_closing_example :
  let g := [(1, mkE [2; 3] [] (EPlain 100)); (2, mkE [] [] (EPlain 100)); (3, mkE [] [] (EPlain 100))]%Z in
  exists g', join_returns g 9%Z 3%Z = Ok g' /\ oentry (og g) = Some 1%Z /\ c01_check false (og g) (ehier 8%Z g') = true.
Proof. eexists. split; [vm_compute; reflexivity|]. split; vm_compute; reflexivity. Qed.

Local Open Scope Z_scope.
(* non-vacuity of C01_header_unification_preserves_paths: two entries 1, 2 into the blocks 3 and 4,
   unified behind the head 9 with the control variable 7; all hypotheses hold, so every walk is kept *)
Example C01_header_unification_example :
  let g := [(1, mkE [3; 4] [] (EPlain 100)); (2, mkE [4] [] (EPlain 100));
            (3, mkE [4] [] (EPlain 100)); (4, mkE [3] [] (EPlain 100))]%Z in
  exists g', insert_cb g 9 7 [1; 2] [3; 4] [20; 21; 22] 11 = Ok g' /\
    forall n e e' ds tr st,
      (exists b, efind g n = Some b /\ e_kind b = EPlain 100) -> E (Fv 7) e e' ->
      WTrace (ehier 99 g) (resolve_flat (ehier 99 g)) false n e ds tr st ->
      WTrace (ehier 99 g') (resolve_flat (ehier 99 g')) false n e' ds tr st.
Proof.
  cbv zeta. eexists. split; [vm_compute; reflexivity|].
  assert (Hf : forall x b, efind [(1, mkE [3; 4] [] (EPlain 100)); (2, mkE [4] [] (EPlain 100));
                                  (3, mkE [4] [] (EPlain 100)); (4, mkE [3] [] (EPlain 100))] x = Some b ->
               (x = 1 /\ b = mkE [3; 4] [] (EPlain 100)) \/ (x = 2 /\ b = mkE [4] [] (EPlain 100)) \/
               (x = 3 /\ b = mkE [4] [] (EPlain 100)) \/ (x = 4 /\ b = mkE [3] [] (EPlain 100))).
  { intros x b. unfold efind. cbn [zassoc].
    destruct (Z.eqb_spec x 1); [intros [= <-]; auto|]. destruct (Z.eqb_spec x 2); [intros [= <-]; auto|].
    destruct (Z.eqb_spec x 3); [intros [= <-]; auto|]. destruct (Z.eqb_spec x 4); [intros [= <-]; auto 6|discriminate]. }
  apply (C01_header_unification_preserves_paths _ 99 9 7 [1; 2] [3; 4] [20; 21; 22] 11).
  - split; [repeat constructor; cbn; intuition lia|cbn; intuition lia].
  - split; [repeat constructor; cbn; intuition lia|].
    intros a Ha. cbn in Ha. destruct Ha as [<-|[<-|[<-|[]]]]; (split; [reflexivity|]); cbn; intuition lia.
  - intros p b Hp Hb. destruct (Hf p b Hb) as [[-> ->]|[[-> ->]|[[-> ->]|[-> ->]]]]; cbn in Hp;
      try (exfalso; intuition lia); (split; [repeat constructor; cbn; intuition lia|]);
      (split; [intros a Ha; cbn in Ha |- *; intuition lia|intros; discriminate]).
  - split; [cbn; intuition lia|lia].
  - reflexivity.
  - intros x b t Hb Ht. destruct (Hf x b Hb) as [[-> ->]|[[-> ->]|[[-> ->]|[-> ->]]]]; cbn in Ht |- *; intuition lia.
  - intros s Hs. cbn in Hs |- *. intuition lia.
  - intros x b Hb. destruct (Hf x b Hb) as [[-> ->]|[[-> ->]|[[-> ->]|[-> ->]]]]; exact I.
  - vm_compute. reflexivity.
Qed.

(* non-vacuity of C01_loop_rotation_preserves_paths: the loop {2, 3} with head 2, left from 2 to 5 and
   from 3 to 4 (two exits: an exit branch is needed), back edge 3 -> 2 *)
Example C01_loop_rotation_example :
  let g := [(1, mkE [2] [] (EPlain 100)); (2, mkE [3; 5] [] (EPlain 100)); (3, mkE [2; 4] [] (EPlain 100));
            (4, mkE [] [] (EPlain 100)); (5, mkE [] [] (EPlain 100))] in
  exists g', loop_rotate g 2 [2] [4; 5] [2; 3] false [] (fun _ _ => true) 30 31 7 8 [20; 21; 22; 23] = Ok g' /\
    forall n e e' ds tr st,
      (exists b, efind g n = Some b /\ e_kind b = EPlain 100) -> E (Fl 7 8) e e' ->
      WTrace (ehier 99 g) (resolve_flat (ehier 99 g)) false n e ds tr st ->
      WTrace (ehier 99 g') (resolve_flat (ehier 99 g')) false n e' ds tr st.
Proof.
  cbv zeta. eexists. split; [vm_compute; reflexivity|].
  assert (Hf : forall x b, efind [(1, mkE [2] [] (EPlain 100)); (2, mkE [3; 5] [] (EPlain 100));
                                  (3, mkE [2; 4] [] (EPlain 100)); (4, mkE [] [] (EPlain 100));
                                  (5, mkE [] [] (EPlain 100))] x = Some b ->
               (x = 1 /\ b = mkE [2] [] (EPlain 100)) \/ (x = 2 /\ b = mkE [3; 5] [] (EPlain 100)) \/
               (x = 3 /\ b = mkE [2; 4] [] (EPlain 100)) \/ (x = 4 /\ b = mkE [] [] (EPlain 100)) \/
               (x = 5 /\ b = mkE [] [] (EPlain 100))).
  { intros x b. unfold efind. cbn [zassoc].
    destruct (Z.eqb_spec x 1); [intros [= <-]; auto|]. destruct (Z.eqb_spec x 2); [intros [= <-]; auto|].
    destruct (Z.eqb_spec x 3); [intros [= <-]; auto 6|]. destruct (Z.eqb_spec x 4); [intros [= <-]; auto 7|].
    destruct (Z.eqb_spec x 5); [intros [= <-]; auto 8|discriminate]. }
  apply (C01_loop_rotation_preserves_paths _ 99 2 [4; 5] [2; 3] (fun _ _ => true) 30 31 7 8 [20; 21; 22; 23]).
  - vm_compute. reflexivity.
  - split; [repeat constructor; cbn; intuition lia|].
    intros p [<-|[<-|[]]].
    + eexists. split; [reflexivity|]. split; [intros ? ? ?; discriminate|]. split; [reflexivity|].
      split; [repeat constructor; cbn; intuition lia|]. intros a Ha. cbn in Ha |- *. intuition lia.
    + eexists. split; [reflexivity|]. split; [intros ? ? ?; discriminate|]. split; [reflexivity|].
      split; [repeat constructor; cbn; intuition lia|]. intros a Ha. cbn in Ha |- *. intuition lia.
  - split; [repeat constructor; cbn; intuition lia|].
    intros a Ha. cbn in Ha. destruct Ha as [<-|[<-|[<-|[<-|[]]]]]; (split; [reflexivity|]); cbn; intuition lia.
  - split; [reflexivity|]. cbn. intuition lia.
  - intros _. split; [reflexivity|]. cbn. intuition lia.
  - split; [repeat constructor; cbn; intuition lia|]. split; [intros x Hx; cbn in Hx |- *; intuition lia|cbn; intuition lia].
  - cbn. intuition lia.
  - cbn. intuition lia.
  - intros x b t Hb Ht. destruct (Hf x b Hb) as [[-> ->]|[[-> ->]|[[-> ->]|[[-> ->]|[-> ->]]]]]; cbn in Ht |- *; intuition lia.
  - split; [lia|]. intros x b Hb. destruct (Hf x b Hb) as [[-> ->]|[[-> ->]|[[-> ->]|[[-> ->]|[-> ->]]]]]; exact I.
Qed.

(* non-vacuity of C01_multi_header_loop_rotation_preserves_paths: the irreducible loop {2, 3}, entered
   from 1 at both 2 and 3, left from 3 to 4 *)
Example C01_multi_header_example :
  let g := [(1, mkE [2; 3] [] (EPlain 100)); (2, mkE [3] [] (EPlain 100)); (3, mkE [2; 4] [] (EPlain 100));
            (4, mkE [] [] (EPlain 100))] in
  let isb := fun a (_ : name) => negb (Z.eqb a 9) in
  exists g1 g2, insert_cb g 9 7 [1] [2; 3] [10; 11] C_HEAD = Ok g1 /\
    loop_rotate g1 9 [2; 3] [4] [2; 3; 9] true [(0, 2); (1, 3)] isb 30 0 7 8 [20; 21; 22] = Ok g2 /\
    forall n e e' ds tr st,
      (exists b, efind g n = Some b /\ e_kind b = EPlain 100) -> E (Fu 7 8) e e' ->
      WTrace (ehier 99 g) (resolve_flat (ehier 99 g)) false n e ds tr st ->
      WTrace (ehier 99 g2) (resolve_flat (ehier 99 g2)) false n e' ds tr st.
Proof.
  cbv zeta. eexists. eexists. split; [vm_compute; reflexivity|]. split; [vm_compute; reflexivity|].
  assert (Hf : forall x b, efind [(1, mkE [2; 3] [] (EPlain 100)); (2, mkE [3] [] (EPlain 100));
                                  (3, mkE [2; 4] [] (EPlain 100)); (4, mkE [] [] (EPlain 100))] x = Some b ->
               (x = 1 /\ b = mkE [2; 3] [] (EPlain 100)) \/ (x = 2 /\ b = mkE [3] [] (EPlain 100)) \/
               (x = 3 /\ b = mkE [2; 4] [] (EPlain 100)) \/ (x = 4 /\ b = mkE [] [] (EPlain 100))).
  { intros x b. unfold efind. cbn [zassoc].
    destruct (Z.eqb_spec x 1); [intros [= <-]; auto|]. destruct (Z.eqb_spec x 2); [intros [= <-]; auto|].
    destruct (Z.eqb_spec x 3); [intros [= <-]; auto 6|]. destruct (Z.eqb_spec x 4); [intros [= <-]; auto 7|discriminate]. }
  eapply (C01_multi_header_loop_rotation_preserves_paths _ 99 9 7 [1] [2; 3] [10; 11] _ [4] [2; 3; 9] [(0, 2); (1, 3)]
            (fun a _ => negb (Z.eqb a 9)) 30 0 8 [20; 21; 22]).
  - vm_compute. reflexivity.
  - vm_compute. reflexivity.
  - vm_compute. reflexivity.
  - split; [repeat constructor; cbn; intuition lia|cbn; intuition lia].
  - split; [repeat constructor; cbn; intuition lia|].
    intros a Ha. cbn in Ha. destruct Ha as [<-|[<-|[]]]; (split; [reflexivity|]); cbn; intuition lia.
  - intros p b Hp Hb. destruct (Hf p b Hb) as [[-> ->]|[[-> ->]|[[-> ->]|[-> ->]]]]; cbn in Hp;
      try (exfalso; intuition lia); (split; [repeat constructor; cbn; intuition lia|]);
      (split; [intros a Ha; cbn in Ha |- *; intuition lia|intros; discriminate]).
  - split; [cbn; intuition lia|lia].
  - reflexivity.
  - intros x b t Hb Ht. destruct (Hf x b Hb) as [[-> ->]|[[-> ->]|[[-> ->]|[-> ->]]]]; cbn in Ht |- *; intuition lia.
  - split; [repeat constructor; cbn; intuition lia|]. split; intros s0 Hs0; cbn in Hs0 |- *; intuition lia.
  - split; [lia|]. intros x b Hb. destruct (Hf x b Hb) as [[-> ->]|[[-> ->]|[[-> ->]|[-> ->]]]]; exact I.
  - split; [repeat constructor; cbn; intuition lia|].
    intros p [<-|[<-|[<-|[]]]].
    + right. split; [cbn; intuition lia|]. eexists. split; [reflexivity|]. split; [intros ? ? ?; discriminate|].
      split; [reflexivity|]. split; [repeat constructor; cbn; intuition lia|]. intros a Ha. cbn in Ha |- *. intuition lia.
    + right. split; [cbn; intuition lia|]. eexists. split; [reflexivity|]. split; [intros ? ? ?; discriminate|].
      split; [reflexivity|]. split; [repeat constructor; cbn; intuition lia|]. intros a Ha. cbn in Ha |- *. intuition lia.
    + left. reflexivity.
  - intros t _. reflexivity.
  - split; [repeat constructor; cbn; intuition lia|].
    intros a Ha. cbn in Ha. destruct Ha as [<-|[<-|[<-|[]]]]; (split; [reflexivity|]); cbn; intuition lia.
  - split; [reflexivity|]. cbn. intuition lia.
  - intros Hn. discriminate Hn.
  - split; [repeat constructor; cbn; intuition lia|]. intros x Hx. cbn in Hx |- *. intuition lia.
  - intros t Ht. cbn in Ht. destruct Ht as [<-|[<-|[]]]; exists 1, (mkE [2; 3] [] (EPlain 100));
      [exists 0%nat|exists 1%nat]; (split; [left; reflexivity|split; reflexivity]).
Qed.

(* non-vacuity of C01_region_extraction_preserves_paths: the self loop 6 (declared back edge), entered
   from 5 and left to 7, is wrapped into the loop region 50 of the outermost graph *)
Example C01_region_extraction_example :
  let h := [ mkNode 1 0 [] [] (KRegion 1 0 0 [5; 6; 7] 0 true);
             mkNode 5 1 [6] [] (KOrig 1); mkNode 6 1 [6; 7] [6] (KOrig 1); mkNode 7 1 [] [] (KOrig 1) ] in
  exists h', extract h 1 [6] [5] 6 6 2 50 = XOk h' /\
    forall n e e' ds tr st,
      (exists b p, find h n = Some b /\ n_kind b = KOrig p) -> E Fx e e' ->
      WTrace h (resolve_flat h) false n e ds tr st -> WTrace h' (resolve_flat h') false n e' ds tr st.
Proof.
  cbv zeta. eexists. split; [vm_compute; reflexivity|].
  assert (Hf : forall x n, find [ mkNode 1 0 [] [] (KRegion 1 0 0 [5; 6; 7] 0 true);
             mkNode 5 1 [6] [] (KOrig 1); mkNode 6 1 [6; 7] [6] (KOrig 1); mkNode 7 1 [] [] (KOrig 1) ] x = Some n ->
             (x = 1 /\ n = mkNode 1 0 [] [] (KRegion 1 0 0 [5; 6; 7] 0 true)) \/ (x = 5 /\ n = mkNode 5 1 [6] [] (KOrig 1)) \/
             (x = 6 /\ n = mkNode 6 1 [6; 7] [6] (KOrig 1)) \/ (x = 7 /\ n = mkNode 7 1 [] [] (KOrig 1))).
  { intros x n. cbn [find n_name].
    destruct (Z.eqb_spec 1 x); [intros [= <-]; subst; auto|]. destruct (Z.eqb_spec 5 x); [intros [= <-]; subst; auto|].
    destruct (Z.eqb_spec 6 x); [intros [= <-]; subst; auto 6|]. destruct (Z.eqb_spec 7 x); [intros [= <-]; subst; auto 7|discriminate]. }
  apply (C01_region_extraction_preserves_paths 6 50 _ 1 [6] [5] 6 2).
  - lia.
  - vm_compute. reflexivity.
  - reflexivity.
  - intros x n Hx Hl. destruct (Hf x n Hx) as [[-> ->]|[[-> ->]|[[-> ->]|[-> ->]]]]; try discriminate;
      (split; [repeat constructor; cbn; intuition lia|]); (split; [left; cbn; intuition lia|intros; discriminate]).
  - eexists. split; reflexivity.
  - exists (fun x => if Z.eqb x 1 then 2%nat else if Z.eqb x 0 then 0%nat else 1%nat). split.
    + intros x n rk0 h0 e0 c0 p0 o0 Hx Hk. destruct (Hf x n Hx) as [[-> ->]|[[-> ->]|[[-> ->]|[-> ->]]]]; try discriminate.
      injection Hk as <- <- <- <- <- <-. cbn. lia.
    + cbn. lia.
  - intros x n t Hx Hl Ht. destruct (Hf x n Hx) as [[-> ->]|[[-> ->]|[[-> ->]|[-> ->]]]]; try discriminate; cbn in Ht;
      intuition (subst; vm_compute; discriminate).
Qed.

(* non-vacuity of C01_header_unification_any_level_preserves_paths: the predecessors are the block 5
   (two arcs into S) and the loop region 20, whose exiting block 21 holds the arc into S *)
Example C01_header_unification_any_level_example :
  let h := [ mkNode 1 0 [] [] (KRegion 1 0 0 [5; 20; 7; 8] 0 true);
             mkNode 5 1 [7; 8] [] (KOrig 1);
             mkNode 20 1 [8] [] (KRegion 2 21 21 [21] 1 true);
             mkNode 21 20 [21; 8] [21] (KOrig 1);
             mkNode 7 1 [] [] (KOrig 1); mkNode 8 1 [] [] (KOrig 1) ] in
  exists h', insert_cb_h h 1 40 9 [5; 20] [7; 8] [30; 31; 32] = XOk h' /\
    find h' 21 = Some (mkNode 21 20 [21; 32] [21] (KOrig 1)) /\
    forall n e e' ds tr st,
      (exists b p, find h n = Some b /\ n_kind b = KOrig p) -> E (Fc 9) e e' ->
      WTrace h (resolve_flat h) false n e ds tr st -> WTrace h' (resolve_flat h') false n e' ds tr st.
Proof.
  cbv zeta. eexists. split; [vm_compute; reflexivity|]. split; [vm_compute; reflexivity|].
  assert (Hf : forall x n, find [ mkNode 1 0 [] [] (KRegion 1 0 0 [5; 20; 7; 8] 0 true);
             mkNode 5 1 [7; 8] [] (KOrig 1); mkNode 20 1 [8] [] (KRegion 2 21 21 [21] 1 true);
             mkNode 21 20 [21; 8] [21] (KOrig 1); mkNode 7 1 [] [] (KOrig 1); mkNode 8 1 [] [] (KOrig 1) ] x = Some n ->
             (x = 1 /\ n = mkNode 1 0 [] [] (KRegion 1 0 0 [5; 20; 7; 8] 0 true)) \/ (x = 5 /\ n = mkNode 5 1 [7; 8] [] (KOrig 1)) \/
             (x = 20 /\ n = mkNode 20 1 [8] [] (KRegion 2 21 21 [21] 1 true)) \/ (x = 21 /\ n = mkNode 21 20 [21; 8] [21] (KOrig 1)) \/
             (x = 7 /\ n = mkNode 7 1 [] [] (KOrig 1)) \/ (x = 8 /\ n = mkNode 8 1 [] [] (KOrig 1))).
  { intros x n. cbn [find n_name].
    destruct (Z.eqb_spec 1 x); [intros [= <-]; subst; auto|]. destruct (Z.eqb_spec 5 x); [intros [= <-]; subst; auto|].
    destruct (Z.eqb_spec 20 x); [intros [= <-]; subst; auto 6|]. destruct (Z.eqb_spec 21 x); [intros [= <-]; subst; auto 7|].
    destruct (Z.eqb_spec 7 x); [intros [= <-]; subst; auto 8|]. destruct (Z.eqb_spec 8 x); [intros [= <-]; subst; auto 9|discriminate]. }
  apply (C01_header_unification_any_level_preserves_paths _ 1 40 9 [5; 20] [7; 8] [30; 31; 32]).
  - vm_compute. reflexivity.
  - exists (fun x => if Z.eqb x 0 then 0%nat else if Z.eqb x 1 then 1%nat else if Z.eqb x 21 then 3%nat else 2%nat).
    intros x n Hx. destruct (Hf x n Hx) as [[-> ->]|[[-> ->]|[[-> ->]|[[-> ->]|[[-> ->]|[-> ->]]]]]]; cbn; lia.
  - eexists. split; reflexivity.
  - intros p [<-|[<-|[]]]; (split; [lia|]); eexists; split; reflexivity.
  - split; [repeat constructor; cbn; intuition lia|].
    intros a Ha. cbn in Ha. destruct Ha as [<-|[<-|[<-|[]]]]; (split; [reflexivity|]); cbn; intuition lia.
  - reflexivity.
  - intros x n Hx Hl. destruct (Hf x n Hx) as [[-> ->]|[[-> ->]|[[-> ->]|[[-> ->]|[[-> ->]|[-> ->]]]]]]; try discriminate;
      (split; [repeat constructor; cbn; intuition lia|]); (split; [intros a Ha; cbn in Ha |- *; intuition lia|]);
      (split; intros; discriminate).
  - intros x n t Hx Hl Ht. destruct (Hf x n Hx) as [[-> ->]|[[-> ->]|[[-> ->]|[[-> ->]|[[-> ->]|[-> ->]]]]]]; try discriminate; cbn in Ht;
      intuition (subst; vm_compute; discriminate).
  - intros s0 Hs0. cbn in Hs0. intuition (subst; vm_compute; discriminate).
Qed.

(* ---------- the two walk disciplines agree (Model/RegionFlat.v) ----------
   For EVERY hierarchy: an arc the region-by-region discipline resolves is resolved by the flat one to the
   same block (no hypothesis).  Hence on a hierarchy where the region discipline resolves every arc of
   every block - the boolean arcs_resolve, which the extracted checker evaluates on every exported instance
   after every stage - a walk in one discipline IS a walk in the other, and every theorem above about the
   flat walk holds for the region walk as well. *)
From V Require Import Model.RegionFlat.

Theorem C01_region_resolution_is_flat_resolution :
  forall h cur t c, resolve_region h cur t = Some c -> resolve_flat h cur t = Some c.
Proof. exact resolve_region_flat. Qed.
Print Assumptions C01_region_resolution_is_flat_resolution.

Theorem C01_region_walk_is_flat_walk :
  forall h strict, arcs_resolve h = true ->
    forall n e ds tr st,
      (exists b, find h n = Some b /\ is_region b = false) ->
      (WTrace h (resolve_region h) strict n e ds tr st <-> WTrace h (resolve_flat h) strict n e ds tr st).
Proof. exact region_walk_is_flat_walk. Qed.
Print Assumptions C01_region_walk_is_flat_walk.

Theorem C01_flat_preservation_transfers_to_region_walk :
  forall h h' strict (Rel : env -> env -> Prop),
    arcs_resolve h = true -> arcs_resolve h' = true ->
    forall n,
      (exists b, find h n = Some b /\ is_region b = false) ->
      (exists b, find h' n = Some b /\ is_region b = false) ->
      (forall e e' ds tr st, Rel e e' ->
         WTrace h (resolve_flat h) strict n e ds tr st -> WTrace h' (resolve_flat h') strict n e' ds tr st) ->
      forall e e' ds tr st, Rel e e' ->
        WTrace h (resolve_region h) strict n e ds tr st -> WTrace h' (resolve_region h') strict n e' ds tr st.
Proof. exact flat_preservation_transfers. Qed.
Print Assumptions C01_flat_preservation_transfers_to_region_walk.

(* non-vacuity: the hierarchy with a loop region of the example above resolves every arc region-wise *)
Example C01_arcs_resolve_example :
  arcs_resolve [ mkNode 1 0 [] [] (KRegion 1 0 0 [5; 20; 7; 8] 0 true);
                 mkNode 5 1 [7; 20] [] (KOrig 1);
                 mkNode 20 1 [8] [] (KRegion 2 21 21 [21] 1 true);
                 mkNode 21 20 [21; 8] [21] (KOrig 1);
                 mkNode 7 1 [] [] (KOrig 1); mkNode 8 1 [] [] (KOrig 1) ] = true.
Proof. vm_compute. reflexivity. Qed.

(* ---------- the same two theorems with BOOLEAN premises (Model/Applic.v) ----------
   Every hypothesis of the two hierarchy-level theorems is decidable; walk_pre_cbh / walk_pre_extract
   compute them and are proved to imply them.  The extracted checker evaluates them on every call of
   insert_block_and_control_blocks and of extract_region the pipeline makes during the C02 check
   (evidence: path_theorem_hypotheses_met), so the theorems are known to apply, as stated, to the calls
   that really occur. *)
From V Require Import Model.Applic.

Theorem C01_header_unification_any_level_preserves_paths_b :
  forall h lvl new var preds Ss names h' strict,
    insert_cb_h h lvl new var preds Ss names = XOk h' ->
    walk_pre_cbh h lvl new var preds Ss names = true ->
    forall n e e' ds tr st,
      (exists b p, find h n = Some b /\ n_kind b = KOrig p) ->
      E (Fc var) e e' ->
      WTrace h (resolve_flat h) strict n e ds tr st -> WTrace h' (resolve_flat h') strict n e' ds tr st.
Proof. exact insert_cb_h_keeps_walks_b. Qed.
Print Assumptions C01_header_unification_any_level_preserves_paths_b.

Theorem C01_region_extraction_preserves_paths_b :
  forall hd rname h lvl blocks entries ex rk h' strict,
    extract h lvl blocks entries hd ex rk rname = XOk h' ->
    walk_pre_extract h lvl hd rname = true ->
    forall n e e' ds tr st,
      (exists b p, find h n = Some b /\ n_kind b = KOrig p) ->
      E Fx e e' ->
      WTrace h (resolve_flat h) strict n e ds tr st -> WTrace h' (resolve_flat h') strict n e' ds tr st.
Proof. exact extract_keeps_walks_b. Qed.
Print Assumptions C01_region_extraction_preserves_paths_b.

(* ---------- loop rotation at ANY level of a hierarchy (Model/LoopHier.v, Flatten.v, LoopRename.v, LoopHierPath.v) ----------
   loop_restructure_helper works on the dictionary of one level, blocks and region blocks alike; the model
   (LoopHier.loop_helper_h: the flat model applied to that dictionary and written back, compared with the
   code on every call the pipeline makes) does the same.  The theorem: the rotation (one header) keeps every
   flat walk of the whole hierarchy, exits that are regions included.  Proof route: the flat walk of any
   hierarchy is the walk of its resolved leaf graph (C01_hierarchy_walk_is_flat_graph_walk); rotating the
   level's dictionary and resolving region names afterwards is rotating the resolved leaf graph
   (LoopRename.loop_rotate_rho); rotating a flat graph keeps every walk (C01_loop_rotation_preserves_paths).
   All hypotheses are decidable; walk_pre_rot computes them and the extracted checker evaluates it on every
   rotation the pipeline performs (evidence: plain_rotations_meeting_path_theorem_hypotheses). *)
From V Require Import Model.LoopHier Model.Flatten Model.LoopHierPath Model.LoopHierApplic.

Theorem C01_hierarchy_walk_is_flat_graph_walk :
  forall h top strict,
    NoDup (names h) -> ~ In top (names h) ->
    (forall n, In n h -> n_kind n <> KPlain 100) ->
    (forall x n t, find h x = Some n -> is_region n = false -> In t (n_jt n) -> enter_flat h (S (length h)) t <> None) ->
    (forall x n c v tbl z t, find h x = Some n -> n_kind n = KBranch c v tbl -> zassoc z tbl = Some t -> In t (n_jt n)) ->
    forall n e ds tr st,
      (exists b p, find h n = Some b /\ n_kind b = KOrig p) ->
      (WTrace h (resolve_flat h) strict n e ds tr st <->
       WTrace (ehier top (RL h)) (resolve_flat (ehier top (RL h))) strict n e ds tr st).
Proof. exact flatten_walk. Qed.
Print Assumptions C01_hierarchy_walk_is_flat_graph_walk.

Theorem C01_loop_rotation_any_level_preserves_paths_b :
  forall h lvl top hd exits todo isback latch sexit ev bv fresh strict,
    walk_pre_rot h lvl top hd exits todo isback latch sexit ev bv fresh = true ->
    exists nl g1 g1',
      find h lvl = Some nl /\ collect h (children_h nl) = Some g1 /\
      loop_rotate g1 hd [hd] exits todo false [] isback latch sexit ev bv fresh = Ok g1' /\
      forall n e e' ds tr st,
        (exists b p, find h n = Some b /\ n_kind b = KOrig p) ->
        E (Fl ev bv) e e' ->
        WTrace h (resolve_flat h) strict n e ds tr st ->
        WTrace (write_back h lvl g1') (resolve_flat (write_back h lvl g1')) strict n e' ds tr st.
Proof. exact loop_rotate_h_keeps_walks_b. Qed.
Print Assumptions C01_loop_rotation_any_level_preserves_paths_b.

(* non-vacuity: the self loop 6 (no declared back edge yet) with two ways out, one of them into the loop
   region 20 whose header is 21; rotated at the outermost level *)
Example C01_loop_rotation_any_level_example :
  walk_pre_rot [ mkNode 1 0 [] [] (KRegion 1 0 0 [5; 6; 7; 20] 0 true);
                 mkNode 5 1 [6] [] (KOrig 1);
                 mkNode 6 1 [6; 7; 20] [] (KOrig 1);
                 mkNode 7 1 [] [] (KOrig 1);
                 mkNode 20 1 [7] [] (KRegion 2 21 21 [21] 1 true);
                 mkNode 21 20 [21; 7] [21] (KOrig 1) ]
               1 (-1) 6 [7; 20] [6] (fun _ _ => true) 40 41 8 9 [30; 31; 32] = true.
Proof. vm_compute. reflexivity. Qed.

(* the rotation of a loop with SEVERAL headers at ANY level of a hierarchy keeps every flat walk: the
   level's dictionary, header unification (Edits2.insert_cb; the entries are blocks of the level) followed by
   the rotation on the unified head, whose variable is reused as the exit variable (LoopEdit.loop_rotate),
   written back.  Proof (Model/UniHierPath.v) by the route of the rotation with one header: Flatten,
   CbRename + LoopRename2 (both edits commute with the resolution of region names; the unified head is
   processed although it carries a table), LoopHierPath.link, LoopPath2.unified_rotation_keeps_walks.
   The boolean premise is evaluated on every call with several headers the pipeline makes, together with
   the comparison of write_back h lvl g1' with the hierarchy the implementation produced. *)
From V Require Import Model.UniHierPath Model.UniHierApplic.
Theorem C01_unified_rotation_any_level_preserves_paths_b :
  forall h lvl top H v entries headers names_cb exits todo isback latch sexit bv fresh strict,
    walk_pre_uni h lvl top H v entries headers names_cb exits todo isback latch sexit bv fresh = true ->
    exists nl g0 g1 tbl g1',
      find h lvl = Some nl /\ collect h (children_h nl) = Some g0 /\
      insert_cb g0 H v entries headers names_cb C_HEAD = Ok g1 /\ head_tbl g1 H v headers = Some tbl /\
      loop_rotate g1 H headers exits todo true tbl isback latch sexit v bv fresh = Ok g1' /\
      forall n e e' ds tr st,
        (exists b p, find h n = Some b /\ n_kind b = KOrig p) ->
        E (Fu v bv) e e' ->
        WTrace h (resolve_flat h) strict n e ds tr st ->
        WTrace (write_back h lvl g1') (resolve_flat (write_back h lvl g1')) strict n e' ds tr st.
Proof. exact unified_rotation_h_keeps_walks_b. Qed.
Print Assumptions C01_unified_rotation_any_level_preserves_paths_b.

(* non-vacuity: the loop {6, 7} entered at both blocks from 5, left towards 8 and towards the loop region
   20 (header 21); unified head 40, its assignment blocks 41 42, latch 43, exit branch 48 *)
Example C01_unified_rotation_any_level_example :
  walk_pre_uni [ mkNode 1 0 [] [] (KRegion 1 0 0 [5; 6; 7; 8; 20] 0 true);
                 mkNode 5 1 [6; 7] [] (KOrig 1);
                 mkNode 6 1 [7; 20] [] (KOrig 1);
                 mkNode 7 1 [6; 8] [] (KOrig 1);
                 mkNode 8 1 [] [] (KOrig 1);
                 mkNode 20 1 [8] [] (KRegion 2 21 21 [21] 1 true);
                 mkNode 21 20 [21; 8] [21] (KOrig 1) ]
               1 (-1) 40 8 [5] [6; 7] [41; 42] [8; 20] [6; 7; 40] (fun p _ => negb (Z.eqb p 40)) 43 48 9 [44; 45; 46; 47] = true.
Proof. vm_compute. reflexivity. Qed.

(* the early return of loop_restructure_helper (the single latch is the single exiting block: only a back
   edge is declared) keeps every flat walk, at any level (Model/BeOnly.v): hierarchies of the same size whose
   blocks agree on successors and class have the same flat walks *)
From V Require Import Model.Edits2 Model.BeOnly.
Theorem C01_early_return_any_level_preserves_paths :
  forall h lvl nl g1 g2 bb hd b b1 strict,
    find h lvl = Some nl -> is_region nl = true ->
    collect h (children_h nl) = Some g1 ->
    dpop g1 bb = Some (b, g2) -> declare_backedge b hd = Some b1 ->
    NoDup (ekeys (dset g2 bb b1)) -> efind g1 lvl = None ->
    (forall x n t, find h x = Some n -> is_region n = false -> In t (n_jt n) -> enter_flat h (S (length h)) t <> None) ->
    forall n e ds tr st,
      (exists b0 p, find h n = Some b0 /\ n_kind b0 = KOrig p) ->
      WTrace h (resolve_flat h) strict n e ds tr st ->
      WTrace (write_back h lvl (dset g2 bb b1)) (resolve_flat (write_back h lvl (dset g2 bb b1))) strict n e ds tr st.
Proof.
  intros h lvl nl g1 g2 bb hd b b1 strict. exact (early_return_keeps_walks h lvl nl g1 g2 bb hd b b1 strict).
Qed.
Print Assumptions C01_early_return_any_level_preserves_paths.

(* a block inserted in front of ONE successor (join_tails_and_exits, insert_SyntheticFill during branch
   restructuring) at ANY level of a hierarchy keeps every flat walk; the predecessors are blocks of the level
   (branching synthetic blocks, whose tables follow, included), the successor may be a region.  Model:
   InsHier.insert_block_h (the flat model on the level's dictionary, compared with the code on every call of
   the pipeline); proof by the same route as the rotation (Flatten, InsRename, LoopHierPath.link, IbPath);
   the boolean premise is evaluated on every such call the pipeline makes. *)
From V Require Import Model.IbPath Model.InsHierApplic.
Theorem C01_single_successor_insertion_any_level_preserves_paths_b :
  forall h lvl top new e0 preds cls strict,
    walk_pre_ins h lvl top new e0 preds cls = true ->
    exists nl g1 g1',
      find h lvl = Some nl /\ collect h (children_h nl) = Some g1 /\
      insert_block g1 new preds [e0] cls = Ok g1' /\
      forall n e e' ds tr st,
        (exists b p, find h n = Some b /\ n_kind b = KOrig p) ->
        E Fn e e' ->
        WTrace h (resolve_flat h) strict n e ds tr st ->
        WTrace (write_back h lvl g1') (resolve_flat (write_back h lvl g1')) strict n e' ds tr st.
Proof. exact insert_block_h_keeps_walks_b. Qed.
Print Assumptions C01_single_successor_insertion_any_level_preserves_paths_b.

(* non-vacuity: the tail 30 inserted between the blocks 5, 6 of the outermost level and the loop region 20 *)
Example C01_single_successor_insertion_any_level_example :
  walk_pre_ins [ mkNode 1 0 [] [] (KRegion 1 0 0 [4; 5; 6; 20; 7] 0 true);
                 mkNode 4 1 [5; 6] [] (KOrig 1);
                 mkNode 5 1 [20] [] (KOrig 1);
                 mkNode 6 1 [20; 7] [] (KOrig 1);
                 mkNode 7 1 [] [] (KOrig 1);
                 mkNode 20 1 [7] [] (KRegion 2 21 21 [21] 1 true);
                 mkNode 21 20 [21; 7] [21] (KOrig 1) ]
               1 (-1) 30 20 [5; 6] 4 = true.
Proof. vm_compute. reflexivity. Qed.

(* The per-call columns compare the hierarchy a path theorem speaks about (write_back h lvl g1') with the
   hierarchy the implementation produced up to the order of the node list: same length, every node found field
   for field under its name (Extract.xnode_eqb).  That comparison is enough (Model/HierEquiv.v): such
   hierarchies have the same lookups, the same resolution of region names, the same resolved leaf graph and
   hence the same flat walks. *)
From V Require Import Model.HierEquiv.
Theorem C01_compared_hierarchies_have_the_same_walks :
  forall a b top strict,
    xhier_eqb a b = true -> flat_okb a top true = true ->
    forall n e ds tr st,
      (exists bn p, find a n = Some bn /\ n_kind bn = KOrig p) ->
      (WTrace a (resolve_flat a) strict n e ds tr st <-> WTrace b (resolve_flat b) strict n e ds tr st).
Proof. exact compared_equal_same_walks. Qed.
Print Assumptions C01_compared_hierarchies_have_the_same_walks.

(* what the value 4 of the per-call column means (UniHierRun.uni_col_of, computed by the extracted checker for
   every call of loop_restructure_helper with several headers from the hierarchy before the call h, the
   hierarchy the implementation produced ha and the recorded arguments): ha has every flat walk of h.  The
   column evaluates walk_pre_uni, the rotation, and the certificate "fit for flattening, original blocks kept,
   equal to ha up to the order of the node list" (walks_cert_sound, HierEquiv.compared_equal_same_walks). *)
From V Require Import Model.UniHierRun.
Theorem C01_unified_rotation_column_sound :
  forall h ha lvl loop headers entries exiting exits doms bnames vnames strict,
    uni_col_of h ha lvl loop headers entries exiting exits doms bnames vnames = 4%Z ->
    exists v bv, forall n e e' ds tr st,
      (exists b p, find h n = Some b /\ n_kind b = KOrig p) -> E (Fu v bv) e e' ->
      WTrace h (resolve_flat h) strict n e ds tr st -> WTrace ha (resolve_flat ha) strict n e' ds tr st.
Proof. exact uni_col_sound. Qed.
Print Assumptions C01_unified_rotation_column_sound.

(* ONE column for every call of loop_restructure_helper (HelperCol.helper_col_of: plain rotation 1, early
   return 3, rotation after unification 4), and what it means: the hierarchy the implementation produced has
   every flat walk of the hierarchy before the call - for some set F of fresh control variables, from every
   original block, under every decision list.  On the quick tier the column is 1, 3 or 4 on every call the
   pipeline makes. *)
From V Require Import Model.HelperCol.
Theorem C01_loop_helper_column_sound :
  forall h ha lvl loop headers entries exiting exits doms bnames vnames strict,
    let c := helper_col_of h ha lvl loop headers entries exiting exits doms bnames vnames in
    c = 1%Z \/ c = 3%Z \/ c = 4%Z ->
    exists F : Z -> Prop, forall n e e' ds tr st,
      (exists b p, find h n = Some b /\ n_kind b = KOrig p) -> E F e e' ->
      WTrace h (resolve_flat h) strict n e ds tr st -> WTrace ha (resolve_flat ha) strict n e' ds tr st.
Proof. exact helper_col_sound. Qed.
Print Assumptions C01_loop_helper_column_sound.

(* the per-call column of the single-successor insertions (InsCol.ins1_col_of) means what it says: value 1 =>
   the hierarchy the implementation produced has every flat walk of the hierarchy before the call *)
From V Require Import Model.InsCol.
Theorem C01_single_successor_insertion_column_sound :
  forall h ha lvl new e0 preds cls strict,
    ins1_col_of h ha lvl new e0 preds cls = 1%Z ->
    forall n e e' ds tr st,
      (exists b p, find h n = Some b /\ n_kind b = KOrig p) -> E Fn e e' ->
      WTrace h (resolve_flat h) strict n e ds tr st -> WTrace ha (resolve_flat ha) strict n e' ds tr st.
Proof. exact ins1_col_sound. Qed.
Print Assumptions C01_single_successor_insertion_column_sound.


(* the per-call columns of insert_block_and_control_blocks (any level, any kind of predecessor) and of
   extract_region mean what they say: value 1 => the hierarchy the implementation produced has every flat walk
   of the hierarchy before the call *)
From V Require Import Model.HierCols.
Theorem C01_control_blocks_column_sound :
  forall h ha lvl new var preds Ss names strict,
    cbh_col_of h ha lvl new var preds Ss names = 1%Z ->
    forall n e e' ds tr st,
      (exists b p, find h n = Some b /\ n_kind b = KOrig p) -> E (Fc var) e e' ->
      WTrace h (resolve_flat h) strict n e ds tr st -> WTrace ha (resolve_flat ha) strict n e' ds tr st.
Proof. exact cbh_col_sound. Qed.
Print Assumptions C01_control_blocks_column_sound.

Theorem C01_region_extraction_column_sound :
  forall h ha lvl blocks entries hd ex rk rname strict,
    extract_col_of h ha lvl blocks entries hd ex rk rname = 1%Z ->
    forall n e e' ds tr st,
      (exists b p, find h n = Some b /\ n_kind b = KOrig p) -> E Fx e e' ->
      WTrace h (resolve_flat h) strict n e ds tr st -> WTrace ha (resolve_flat ha) strict n e' ds tr st.
Proof. exact extract_col_sound. Qed.
Print Assumptions C01_region_extraction_column_sound.

(* an insertion in front of one successor with a REGION among the predecessors (the region block and,
   recursively, its exiting block are re-targeted): judged on the resolved leaf graphs.  If the leaf graph of
   the hierarchy the implementation produced is, lookup for lookup, the flat insertion into the leaf graph of
   the hierarchy before the call - in front of the block the successor resolves to, for the blocks the
   predecessors are left through - every flat walk is kept (Model/RlInsert.v: Flatten twice, the flat theorem
   in between; no model of the edit on hierarchies is involved).  Column value 7. *)
From V Require Import Model.RlInsert.
Theorem C01_insertion_with_region_predecessor_column_sound :
  forall h ha new e0 preds cls strict,
    ins_rl_col_of h ha new e0 preds cls = 7%Z ->
    forall n e e' ds tr st,
      (exists b p, find h n = Some b /\ n_kind b = KOrig p) -> E Fn e e' ->
      WTrace h (resolve_flat h) strict n e ds tr st -> WTrace ha (resolve_flat ha) strict n e' ds tr st.
Proof. exact ins_rl_col_sound. Qed.
Print Assumptions C01_insertion_with_region_predecessor_column_sound.

(* C01 — restructuring preserves every execution path.
   Per instance (input graph g, exported hierarchy h): if the checker accepts,
   then for ALL decision lists the walk of h (flat: rw = false; region by
   region: rw = true) visits the original blocks of g in the same order and
   ends the same way.  Nothing else is in this file. *)
From Coq Require Import ZArith List.
From V Require Import Valid.Hier Valid.Walk Valid.FlatRegion Valid.Run.
From Coq Require Import Lia.
From V Require Import Model.Pipe Model.PipeBounded Model.PipeBounded4.

Theorem C01_checker_sound :
  forall rw g h, c01_check rw g h = true -> PathEq rw g h.
Proof. exact c01_check_sound. Qed.
Print Assumptions C01_checker_sound.

Theorem C01_simulation_sound :
  forall h resolve strict g fuel R entry,
    sim_check h resolve strict g fuel R entry = true ->
    forall ds, WTrace h resolve strict entry nil ds
                      (fst (otrace g entry ds)) (snd (otrace g entry ds)).
Proof. exact sim_check_sound. Qed.
Print Assumptions C01_simulation_sound.

Theorem C01_driver_columns :
  forall rows g h, decode rows = Some (g, h) ->
    (col 1 rows = 1%Z -> PathEq false g h) /\ (col 2 rows = 1%Z -> PathEq true g h).
Proof.
  intros rows g h Hd. destruct (run_instance_sound rows g h Hd) as [A [B _]]. split; assumption.
Qed.
Print Assumptions C01_driver_columns.

(* bounded form over the MODEL of the whole pipeline (Model/Pipe.v, tied to the code by exact
   correspondence): for every closed graph with at most 4 blocks the model completes each stage
   and both walks of its result are path-equivalent to the input, for all decision lists *)
Theorem C01_pipeline_model_le4 :
  forall n g, (n <= 4)%nat -> In g (closed_graphs n) ->
    exists s0 s1 s2,
      p_stage nmU 0 (init_state g) topU = POk s0 /\ p_stage nmU 1 s0 topU = POk s1 /\
      p_stage nmU 2 s1 topU = POk s2 /\
      (forall s, s = s0 \/ s = s1 \/ s = s2 ->
         PathEq false (orig_of g) (to_hier s topU) /\ PathEq true (orig_of g) (to_hier s topU)).
Proof.
  intros n g Hn Hin. destruct (pipeline_good_le4 n g Hn Hin) as [s0 [s1 [s2 [A0 [B0 [A1 [B1 [A2 B2]]]]]]]].
  exists s0, s1, s2. split; [exact A0|]. split; [exact A1|]. split; [exact A2|].
  intros s Hs. destruct Hs as [Hs|[Hs|Hs]]; subst s.
  - split; apply B0.
  - split; apply B1.
  - split; apply B2.
Qed.
Print Assumptions C01_pipeline_model_le4.

(* C01 — restructuring preserves every execution path.
   Per instance (input graph g, exported hierarchy h): if the checker accepts,
   then for ALL decision lists the walk of h (flat: rw = false; region by
   region: rw = true) visits the original blocks of g in the same order and
   ends the same way.  Nothing else is in this file. *)
From Coq Require Import ZArith List.
From V Require Import Valid.Hier Valid.Walk Valid.FlatRegion Valid.Run.

Theorem C01_checker_sound :
  forall rw g h, c01_check rw g h = true -> PathEq rw g h.
Proof. exact c01_check_sound. Qed.
Print Assumptions C01_checker_sound.

Theorem C01_simulation_sound :
  forall h resolve strict g fuel R entry,
    sim_check h resolve strict g fuel R entry = true ->
    forall ds, WTrace h resolve strict entry nil ds
                      (fst (otrace g entry ds)) (snd (otrace g entry ds)).
Proof. exact sim_check_sound. Qed.
Print Assumptions C01_simulation_sound.

Theorem C01_driver_columns :
  forall rows g h, decode rows = Some (g, h) ->
    (col 1 rows = 1%Z -> PathEq false g h) /\ (col 2 rows = 1%Z -> PathEq true g h).
Proof.
  intros rows g h Hd. destruct (run_instance_sound rows g h Hd) as [A [B _]]. split; assumption.
Qed.
Print Assumptions C01_driver_columns.

(* C01 — restructuring preserves every execution path.
   Per instance (input graph g, exported hierarchy h): if the checker accepts,
   then for ALL decision lists the walk of h (flat: rw = false; region by
   region: rw = true) visits the original blocks of g in the same order and
   ends the same way.  Nothing else is in this file. *)
From Coq Require Import ZArith List.
From V Require Import Valid.Hier Valid.Walk Valid.FlatRegion Valid.Run.
From Coq Require Import Lia.
From V Require Import Model.Pipe Model.PipeBounded Model.PipeBounded4 Model.Graph Model.Edits Model.JoinPath.

Theorem C01_checker_sound :
  forall rw g h, c01_check rw g h = true -> PathEq rw g h.
Proof. exact c01_check_sound. Qed.
Print Assumptions C01_checker_sound.

Theorem C01_simulation_sound :
  forall h resolve strict g fuel R entry,
    sim_check h resolve strict g fuel R entry = true ->
    forall ds, WTrace h resolve strict entry nil ds
                      (fst (otrace g entry ds)) (snd (otrace g entry ds)).
Proof. exact sim_check_sound. Qed.
Print Assumptions C01_simulation_sound.

Theorem C01_driver_columns :
  forall rows g h, decode rows = Some (g, h) ->
    (col 1 rows = 1%Z -> PathEq false g h) /\ (col 2 rows = 1%Z -> PathEq true g h).
Proof.
  intros rows g h Hd. destruct (run_instance_sound rows g h Hd) as [A [B _]]. split; assumption.
Qed.
Print Assumptions C01_driver_columns.

(* bounded form over the MODEL of the whole pipeline (Model/Pipe.v, tied to the code by exact
   correspondence): for every closed graph with at most 4 blocks the model completes each stage
   and both walks of its result are path-equivalent to the input, for all decision lists *)
Theorem C01_pipeline_model_le4 :
  forall n g, (n <= 4)%nat -> In g (closed_graphs n) ->
    exists s0 s1 s2,
      p_stage nmU 0 (init_state g) topU = POk s0 /\ p_stage nmU 1 s0 topU = POk s1 /\
      p_stage nmU 2 s1 topU = POk s2 /\
      (forall s, s = s0 \/ s = s1 \/ s = s2 ->
         PathEq false (orig_of g) (to_hier s topU) /\ PathEq true (orig_of g) (to_hier s topU)).
Proof.
  intros n g Hn Hin. destruct (pipeline_good_le4 n g Hn Hin) as [s0 [s1 [s2 [A0 [B0 [A1 [B1 [A2 B2]]]]]]]].
  exists s0, s1, s2. split; [exact A0|]. split; [exact A1|]. split; [exact A2|].
  intros s Hs. destruct Hs as [Hs|[Hs|Hs]]; subst s.
  - split; apply B0.
  - split; apply B1.
  - split; apply B2.
Qed.
Print Assumptions C01_pipeline_model_le4.

(* the first stage, for ALL graphs (no bound): closing the graph keeps every execution path.
   Over the model Edits.join_returns (tied to SCFG.join_returns by the order-exact correspondence
   of C14 and by the pipeline model): for every graph of original blocks with distinct names, whose
   targets exist and which has a unique entry, the flat walk of the closed graph passes through the
   original blocks exactly as the input under every decision list *)
Theorem C01_closing_preserves_paths :
  forall g top fresh en g',
    Input g top fresh -> oentry (og g) = Some en -> join_returns g fresh 3 = Ok g' ->
    PathEq false (og g) (ehier top g').
Proof. exact join_returns_path_eq. Qed.
Print Assumptions C01_closing_preserves_paths.

Import ListNotations.
(* non-vacuity: 1 -> (2, 3), 2 and 3 return; fresh name 9, top region 8: the graph is closed and its
   hypotheses hold (evaluated), and the verified checker agrees on the result *)
Example C01_closing_example :
  let g := [(1, mkE [2; 3] [] (EPlain 100)); (2, mkE [] [] (EPlain 100)); (3, mkE [] [] (EPlain 100))]%Z in
  exists g', join_returns g 9%Z 3%Z = Ok g' /\ oentry (og g) = Some 1%Z /\ c01_check false (og g) (ehier 8%Z g') = true.
Proof. eexists. split; [vm_compute; reflexivity|]. split; vm_compute; reflexivity. Qed.

(* C09 — the graph built from bytecode is exactly the bytecode's control flow.
   OpTables.v is regenerated on every run from core/utils.py and from the opcode
   modules of the interpreters that are present. *)
From Coq Require Import String List ZArith Sorting.Sorted.
Import ListNotations.
From V Require Import Valid.Hier Model.Graph Model.Bytecode Model.BytecodeProof Model.BytecodeRun
                      Model.OpCheck Gen.OpTables.

Lemma C09_translation_accepted : ops_translation_ok = true.
Proof. reflexivity. Qed.

(* every opcode of the running interpreter(s) that can occur in a function of
   the domain is classified by the library's tables exactly as the interpreter
   treats it (an absent interpreter contributes an empty list) *)
Theorem C09_tables_agree_3_12 :
  tables_agree lib_cond lib_uncond lib_term interp_ops_3_12 = true /\ nonvacuous interp_ops_3_12 = true.
Proof. vm_compute. split; reflexivity. Qed.
Print Assumptions C09_tables_agree_3_12.

Theorem C09_tables_agree_3_11 :
  tables_agree lib_cond lib_uncond lib_term interp_ops_3_11 = true.
Proof. vm_compute. reflexivity. Qed.
Print Assumptions C09_tables_agree_3_11.

Theorem C09_cachefree : cachefree interp_ops_3_12 = true /\ cachefree interp_ops_3_11 = true.
Proof. vm_compute. split; reflexivity. Qed.
Print Assumptions C09_cachefree.

(* the offset arithmetic of the library is the one the model uses *)
Theorem C09_offset_helpers : lib_next_delta = 2%Z /\ lib_prev_delta = (-2)%Z.
Proof. split; reflexivity. Qed.
Print Assumptions C09_offset_helpers.

(* for EVERY instruction stream satisfying the hypotheses of WfStream, building
   the blocks succeeds and the blocks tile the stream, are entered only at
   their begin, contain jumps only as last instruction and carry exactly the
   ordered successors of their last instruction *)
Theorem C09_cut_spec : forall s, WfStream s -> exists bl, cut s = Some bl /\ CutSpec s bl.
Proof. exact cut_spec. Qed.
Print Assumptions C09_cut_spec.

(* the hypotheses are decidable; the check evaluates them on every stream it exports *)
Theorem C09_hypotheses_decidable : forall s, wf_streamb s = true -> WfStream s.
Proof. exact wf_streamb_sound. Qed.
Print Assumptions C09_hypotheses_decidable.

(* non-vacuity: `for i in x: pass; return None` as compiled by 3.12 (FOR_ITER carries one cache entry) *)
Local Open Scope Z_scope.
Definition ex_s : stream :=
  [ mkI 0 2 IPlain 0 false; mkI 2 2 IPlain 0 false; mkI 4 2 IPlain 0 false;
    mkI 6 4 ICond 14 true; mkI 10 2 IPlain 0 false; mkI 12 2 IUncond 6 false;
    mkI 14 2 IPlain 0 true; mkI 16 2 IRet 0 false ].
Example C09_example :
  wf_streamb ex_s = true /\
  cut ex_s = Some [mkB 0 6 [6]; mkB 6 8 [8; 14]; mkB 8 14 [6]; mkB 14 18 []].
Proof. vm_compute. split; reflexivity. Qed.

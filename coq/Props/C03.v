(* C03 — the restructured graph is structured. *)
From Coq Require Import ZArith List.
From V Require Import Valid.Hier Valid.FlatRegion Valid.Struct Valid.Run.
From Coq Require Import Lia.
From V Require Import Model.Pipe Model.PipeBounded Model.PipeBounded4.

Theorem C03_checker_sound :
  forall h rkl rkf, struct_check true h rkl rkf = true -> Structured h.
Proof. exact struct_check_sound. Qed.
Print Assumptions C03_checker_sound.

Theorem C03_loop_stage_sound :
  forall full h rkl rkf, struct_check full h rkl rkf = true -> LoopStructured h.
Proof. exact struct_check_loop_sound. Qed.
Print Assumptions C03_loop_stage_sound.

Theorem C03_rank_certificate :
  forall (E : name -> name -> Prop) (rk : name -> Z),
    (forall x y, E x y -> (rk x < rk y)%Z) -> Acyclic E.
Proof. exact ranked_acyclic. Qed.
Print Assumptions C03_rank_certificate.

Theorem C03_driver_columns :
  forall rows g h, decode rows = Some (g, h) ->
    (col 6 rows = 1%Z -> LoopStructured h) /\ (col 7 rows = 1%Z -> Structured h).
Proof.
  intros rows g h Hd. destruct (run_instance_sound rows g h Hd) as [_ [_ [_ [_ [_ [A B]]]]]].
  split; assumption.
Qed.
Print Assumptions C03_driver_columns.

(* bounded form over the MODEL of the whole pipeline *)
Theorem C03_pipeline_model_le4 :
  forall n g, (n <= 4)%nat -> In g (closed_graphs n) ->
    exists s0 s1 s2,
      p_stage nmU 0 (init_state g) topU = POk s0 /\ p_stage nmU 1 s0 topU = POk s1 /\
      p_stage nmU 2 s1 topU = POk s2 /\
      LoopStructured (to_hier s1 topU) /\ Structured (to_hier s2 topU).
Proof.
  intros n g Hn Hin. destruct (pipeline_good_le4 n g Hn Hin) as [s0 [s1 [s2 [A0 [B0 [A1 [B1 [A2 B2]]]]]]]].
  exists s0, s1, s2. split; [exact A0|]. split; [exact A1|]. split; [exact A2|].
  split; [apply B1; reflexivity|apply B2; reflexivity].
Qed.
Print Assumptions C03_pipeline_model_le4.

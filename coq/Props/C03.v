(* C03 — the restructured graph is structured. *)
From Coq Require Import ZArith List.
Import ListNotations.
From V Require Model.Edits Model.LoopEdit Model.LoopSpec Model.Conserve.
From V Require Import Valid.Hier Valid.FlatRegion Valid.Struct Valid.Run.
From Coq Require Import Lia.
From V Require Import Model.Pipe Model.PipeBounded Model.PipeBounded4.

Theorem C03_checker_sound :
  forall h rkl rkf, struct_check true h rkl rkf = true -> Structured h.
Proof. exact struct_check_sound. Qed.
Print Assumptions C03_checker_sound.

Theorem C03_loop_stage_sound :
  forall full h rkl rkf, struct_check full h rkl rkf = true -> LoopStructured h.
Proof. exact struct_check_loop_sound. Qed.
Print Assumptions C03_loop_stage_sound.

Theorem C03_rank_certificate :
  forall (E : name -> name -> Prop) (rk : name -> Z),
    (forall x y, E x y -> (rk x < rk y)%Z) -> Acyclic E.
Proof. exact ranked_acyclic. Qed.
Print Assumptions C03_rank_certificate.

Theorem C03_driver_columns :
  forall rows g h, decode rows = Some (g, h) ->
    (col 6 rows = 1%Z -> LoopStructured h) /\ (col 7 rows = 1%Z -> Structured h).
Proof.
  intros rows g h Hd. destruct (run_instance_sound rows g h Hd) as [_ [_ [_ [_ [_ [A B]]]]]].
  split; assumption.
Qed.
Print Assumptions C03_driver_columns.

(* bounded form over the MODEL of the whole pipeline *)
Theorem C03_pipeline_model_le4 :
  forall n g, (n <= 4)%nat -> In g (closed_graphs n) ->
    exists s0 s1 s2,
      p_stage nmU 0 (init_state g) topU = POk s0 /\ p_stage nmU 1 s0 topU = POk s1 /\
      p_stage nmU 2 s1 topU = POk s2 /\
      LoopStructured (to_hier s1 topU) /\ Structured (to_hier s2 topU).
Proof.
  intros n g Hn Hin. destruct (pipeline_good_le4 n g Hn Hin) as [s0 [s1 [s2 [A0 [B0 [A1 [B1 [A2 B2]]]]]]]].
  exists s0, s1, s2. split; [exact A0|]. split; [exact A1|]. split; [exact A2|].
  split; [apply B1; reflexivity|apply B2; reflexivity].
Qed.
Print Assumptions C03_pipeline_model_le4.

(* loop rotation, for ALL graphs (no bound), over LoopEdit.loop_rotate: when every block of the loop
   that jumps to an exit, or to a header along an arc classified as a back edge, is processed, then
   afterwards no block of the loop jumps to an exit or back to a header directly - all those arcs end
   in assignment blocks that continue to the single exiting latch, which alone holds the back edge *)
Theorem C03_loop_rotation_single_latch :
  forall g top hd headers exits todo unified header_tbl isback latch sexit ev bv names g',
  let needs := match exits with _ :: _ :: _ => true | _ => false end in
  V.Model.LoopEdit.loop_rotate g hd headers exits todo unified header_tbl isback latch sexit ev bv names = V.Model.Edits.Ok g' ->
  (NoDup todo /\
   forall p, In p todo -> exists b, V.Model.Edits.efind g p = Some b /\ V.Model.Edits.e_be b = [] /\ NoDup (V.Model.Edits.e_jt b) /\
                                    (forall a, In a names -> ~ In a (V.Model.Edits.e_jt b)) /\
                                    (V.Model.LoopSpec.nonbranch b \/
                                     forall t, In t (V.Model.Edits.e_jt b) -> zmem t exits = false /\ (zmem t headers && isback p t)%bool = false)) ->
  (NoDup names /\
   forall a, In a names -> V.Model.Edits.efind g a = None /\ ~ In a todo /\ a <> latch /\ a <> sexit /\ a <> top) ->
  V.Model.Edits.efind g latch = None /\ latch <> top /\ ~ In latch todo ->
  (needs = true -> V.Model.Edits.efind g sexit = None /\ sexit <> latch /\ sexit <> top /\ ~ In sexit todo) ->
  ~ In top (V.Model.Edits.ekeys g) ->
  forall loop,
  (forall x, In x exits -> In x (V.Model.Edits.ekeys g)) -> (forall x, In x headers -> In x (V.Model.Edits.ekeys g)) ->
  (forall x b t, In x loop -> V.Model.Edits.efind g x = Some b -> In t (V.Model.Edits.e_jt b) ->
     (In t exits \/ (In t headers /\ isback x t = true)) -> In x todo) ->
  (forall p b, In p todo -> V.Model.Edits.efind g p = Some b -> V.Model.LoopSpec.nonbranch b) ->
  forall x b', In x loop -> In x (V.Model.Edits.ekeys g) -> V.Model.Edits.efind g' x = Some b' ->
    forall t', In t' (V.Model.Edits.e_jt b') -> ~ In t' exits /\ ~ (In t' headers /\ isback x t' = true).
Proof.
  intros g top hd headers exits todo unified header_tbl isback latch sexit ev bv names g' needs.
  exact (V.Model.Conserve.rotate_no_direct_arcs g top hd headers exits todo unified header_tbl isback latch sexit ev bv names g').
Qed.
Print Assumptions C03_loop_rotation_single_latch.

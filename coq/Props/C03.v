(* C03 — the restructured graph is structured. *)
From Coq Require Import ZArith List.
From V Require Import Valid.Hier Valid.FlatRegion Valid.Struct Valid.Run.

Theorem C03_checker_sound :
  forall h rkl rkf, struct_check true h rkl rkf = true -> Structured h.
Proof. exact struct_check_sound. Qed.
Print Assumptions C03_checker_sound.

Theorem C03_loop_stage_sound :
  forall full h rkl rkf, struct_check full h rkl rkf = true -> LoopStructured h.
Proof. exact struct_check_loop_sound. Qed.
Print Assumptions C03_loop_stage_sound.

Theorem C03_rank_certificate :
  forall (E : name -> name -> Prop) (rk : name -> Z),
    (forall x y, E x y -> (rk x < rk y)%Z) -> Acyclic E.
Proof. exact ranked_acyclic. Qed.
Print Assumptions C03_rank_certificate.

Theorem C03_driver_columns :
  forall rows g h, decode rows = Some (g, h) ->
    (col 6 rows = 1%Z -> LoopStructured h) /\ (col 7 rows = 1%Z -> Structured h).
Proof.
  intros rows g h Hd. destruct (run_instance_sound rows g h Hd) as [_ [_ [_ [_ [_ [A B]]]]]].
  split; assumption.
Qed.
Print Assumptions C03_driver_columns.

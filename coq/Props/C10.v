(* C10 — code generation emits every block exactly once (static census).
   Per regenerated tree, decided by a verified multiset comparison; the names
   the pipeline can introduce are shown to lie in the reserved namespace. *)
From Coq Require Import List ZArith Permutation String.
Import ListNotations.
From V Require Import Valid.Hier Model.Prune Model.NameGen Gen.NameTemplates.

(* the checker accepts only equal multisets: nothing dropped, nothing duplicated *)
Theorem C10_census_checker_sound :
  forall expected got, census_check expected got = true -> Permutation expected got.
Proof. exact census_check_sound. Qed.
Print Assumptions C10_census_checker_sound.

(* control variables come from new_var_name: the template begins with __scfg_ and ends with __ *)
Theorem C10_control_variables_reserved :
  is_prefix (lit "__scfg_") (pre tpl_var) = true /\ is_suffix (lit "__") (post tpl_var) = true.
Proof. vm_compute. split; reflexivity. Qed.
Print Assumptions C10_control_variables_reserved.

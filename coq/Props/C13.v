(* C13 — graph queries return what their definitions prescribe.
   Universal statements over arbitrary graphs (external targets, self loops,
   duplicate targets, declared back edges included). *)
From Coq Require Import List ZArith Sorting.Sorted.
Import ListNotations.
From V Require Import Valid.Hier Model.Graph Model.Queries.

(* the closure all reference definitions rest on: exactly the reachable names *)
Theorem C13_closure_spec :
  forall succ fuel start S, closure succ fuel start = Some S ->
    forall y, In y S <-> exists x, In x start /\ Reach succ x y.
Proof. exact closure_spec. Qed.
Print Assumptions C13_closure_spec.

(* find_head (modelled line by line): the unique key no block targets, and only then *)
Theorem C13_find_head_sound :
  forall g h, NoDup (keys g) -> find_head g = Some h ->
    In h (keys g) /\ ~ Targeted g h /\ forall k, In k (keys g) -> k <> h -> Targeted g k.
Proof. exact find_head_spec. Qed.
Print Assumptions C13_find_head_sound.

Theorem C13_find_head_complete :
  forall g h, NoDup (keys g) -> In h (keys g) -> ~ Targeted g h ->
    (forall k, In k (keys g) -> k <> h -> Targeted g k) -> find_head g = Some h.
Proof. exact find_head_complete. Qed.
Print Assumptions C13_find_head_complete.

(* headers/entries (line by line), including the documented convention when no
   outside block targets the subset *)
Theorem C13_headers_entries :
  forall g sub pe hs es, headers_entries g sub pe = Some (hs, es) ->
    StronglySorted Z.lt es /\
    ((exists x, IsHeader g sub x) ->
       StronglySorted Z.lt hs /\
       (forall x, In x hs <-> IsHeader g sub x) /\ (forall o, In o es <-> IsEntry g sub o)) /\
    ((~ exists x, IsHeader g sub x) ->
       (exists h, find_head g = Some h /\ hs = [h]) /\ (forall o, In o es <-> In o pe)).
Proof. exact headers_entries_spec. Qed.
Print Assumptions C13_headers_entries.

Theorem C13_exiting_exits :
  forall g sub xs es, exiting_exits g sub = Some (xs, es) ->
    StronglySorted Z.lt xs /\ StronglySorted Z.lt es /\
    (forall x, In x xs <-> IsExiting g sub x) /\ (forall t, In t es <-> IsExit g sub t).
Proof. exact exiting_exits_spec. Qed.
Print Assumptions C13_exiting_exits.

(* reference reachability: a path of at least one edge *)
Theorem C13_reachability :
  forall g a b r, reach_ref g a b = Some r -> (r = true <-> PathGe1 g a b).
Proof. exact reach_ref_spec. Qed.
Print Assumptions C13_reachability.

(* reference dominance, in either direction: a dominates b iff a = b or no
   entry reaches b along nodes different from a *)
Theorem C13_dominance :
  forall nodes sx px fuel a b r,
    dom_ref nodes sx px fuel a b = Some r -> (r = true <-> Dominates nodes sx px a b).
Proof. exact dom_ref_spec. Qed.
Print Assumptions C13_dominance.

(* reference strongly connected component of x: the keys mutually reachable with x *)
Theorem C13_scc :
  forall g x C, scc_of g x = Some C ->
    StronglySorted Z.lt C /\
    forall y, In y C <-> In y (keys g) /\ Reach (gsucc_in g) x y /\ Reach (gsucc_in g) y x.
Proof. exact scc_of_spec. Qed.
Print Assumptions C13_scc.

(* non-vacuity: a three-block graph with a loop and an outside target (names 1,2,3; 9 is outside) *)
Definition ex_g : graph :=
  [(1, mkBlk [2] []); (2, mkBlk [3; 9] []); (3, mkBlk [2] [])]%Z.
Example C13_example :
  find_head ex_g = Some 1%Z /\
  headers_entries ex_g [2; 3]%Z [] = Some ([2], [1])%Z /\
  exiting_exits ex_g [2; 3]%Z = Some ([2], [9])%Z /\
  reach_ref ex_g 3%Z 3%Z = Some true /\ reach_ref ex_g 3%Z 1%Z = Some false /\
  scc_of ex_g 2%Z = Some [2; 3]%Z /\
  doms_fwd ex_g = Some [(1, [1]); (2, [1; 2]); (3, [1; 2; 3])]%Z.
Proof. vm_compute. repeat split; reflexivity. Qed.

(* ---------- the dominator work-list itself (transformations._find_dominators_internal) ----------
   Model/DomWl.v is the algorithm line by line (todo stack, successors pushed in the iteration order of
   the set - an input -, comparison and assertion); tied to the code on every call the pipeline makes and
   on direct calls with shuffled orders.  For ALL graphs (distinct nodes, tables inverse to each other and
   closed in the nodes), for ANY enumeration of the successor sets and with the entry points being the nodes
   without predecessor: with the stated fuel it returns - no assertion, no key error - and the table is
   exactly the dominance relation of the reference definition, every set sorted. *)
From V Require Import Model.DomWl Model.DomWlProof.

Theorem C13_dominator_worklist_correct :
  forall nodes preds succs B,
    NoDup nodes ->
    (forall n, In n nodes -> incl (preds n) nodes) ->
    (forall n, In n nodes -> incl (succs n) nodes) ->
    (forall n p, In n nodes -> In p nodes -> (In p (preds n) <-> In n (succs p))) ->
    (forall n, (length (succs n) <= B)%nat) ->
    forall ents, (forall n, In n ents <-> In n nodes /\ preds n = []) ->     (* the entry points, in any order *)
    forall fuel,
      ents <> [] ->
      (mu nodes B (init_D nodes ents) (init_stk nodes ents) < fuel)%nat ->
      exists D log, find_dominators nodes ents preds succs fuel = WOk D log /\
        forall m, In m nodes -> StronglySorted Z.lt (dget D m) /\
                                forall a, In a (dget D m) <-> (In a nodes /\ Dominates nodes succs preds a m).
Proof. exact find_dominators_correct. Qed.
Print Assumptions C13_dominator_worklist_correct.

(* non-vacuity: the example graph above, forward direction *)
Example C13_dominator_worklist_example :
  let nodes := [1; 2; 3]%Z in
  let preds := fun n => if Z.eqb n 2 then [1; 3]%Z else if Z.eqb n 3 then [2]%Z else [] in
  let succs := fun n => if Z.eqb n 1 then [2]%Z else if Z.eqb n 2 then [3]%Z else if Z.eqb n 3 then [2]%Z else [] in
  find_dominators nodes [1]%Z preds succs 40 =
    WOk [(1, [1]); (2, [1; 2]); (3, [1; 2; 3])]%Z [(3, false); (2, true); (3, false)]%Z.
Proof. vm_compute. reflexivity. Qed.

(* is_reachable_dfs itself (Model/Dfs.v: the to_visit stack and the seen set, line by line; the C13 check
   compares its answers with the implementation's on every query): on EVERY graph, with the fuel the
   model computes, it returns and decides "a path of at least one edge"; None = KeyError for a begin
   that is no block *)
From V Require Import Model.Dfs.
Theorem C13_reachability_dfs :
  forall g a b,
    match reach_dfs g a b with
    | None => gfind g a = None
    | Some r => exists v, r = Some v /\ (v = true <-> PathGe1 g a b)
    end.
Proof. exact reach_dfs_spec. Qed.
Print Assumptions C13_reachability_dfs.

(* _imm_doms itself (Model/ImmDom.v line by line; compared with the code on every call of the pipeline and on
   direct calls): under the chain hypotheses (a boolean, with a witness table) it returns the witness - no
   KeyError, no `[v] = vs` on a set that is no singleton - for every enumeration order of the snapshots *)
From V Require Import Model.ImmDom Model.ImmDomProof Model.ImmDomRun.
Theorem C13_imm_doms_correct :
  forall snap doms w fuel,
    (forall k vs x, In x (snap k vs) <-> In x vs) ->
    imm_pre doms w = true -> (2 <= fuel)%nat ->
    imm_doms snap fuel doms =
    IOk (flat_map (fun k => match zassoc k w with Some m => [(k, m)] | None => [] end) (map fst doms)).
Proof. exact imm_doms_correct_b. Qed.
Print Assumptions C13_imm_doms_correct.

Example C13_imm_doms_example :
  imm_pre [(1, [1]); (2, [1; 2]); (3, [1; 2; 3]); (4, [1; 2; 4])]%Z [(2, 1); (3, 2); (4, 2)]%Z = true /\
  imm_doms (fun _ vs => rev vs) 3 [(1, [1]); (2, [1; 2]); (3, [1; 2; 3]); (4, [1; 2; 4])]%Z = IOk [(2, 1); (3, 2); (4, 2)]%Z.
Proof. split; vm_compute; reflexivity. Qed.

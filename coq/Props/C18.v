(* C18 — generated names are fresh.  The templates are re-read from
   NameGenerator's source on every run (Gen/NameTemplates.v). *)
From Coq Require Import List String NArith.
Import ListNotations.
From V Require Import Model.NameGen Gen.NameTemplates.

Lemma C18_translation_accepted : names_translation_ok = true.
Proof. reflexivity. Qed.

Lemma C18_templates_ok : tpls_ok gen_tpls = true.
Proof. vm_compute. reflexivity. Qed.

(* block, region and variable names are jointly injective in (category, kind,
   index), for arbitrary kind strings *)
Theorem C18_render_injective :
  forall c1 k1 i1 c2 k2 i2,
    render (gen_tpls c1) k1 i1 = render (gen_tpls c2) k2 i2 -> c1 = c2 /\ k1 = k2 /\ i1 = i2.
Proof. exact (render_injective gen_tpls C18_templates_ok). Qed.
Print Assumptions C18_render_injective.

(* any interleaving of requests, from any generator state: pairwise distinct names *)
Theorem C18_names_distinct : forall reqs g, NoDup (fst (run gen_tpls g reqs)).
Proof. exact (names_distinct gen_tpls C18_templates_ok). Qed.
Print Assumptions C18_names_distinct.

(* a generator that covers the names present in a graph never hands out one of them ... *)
Theorem C18_fresh_wrt_graph :
  forall g names c k, Covers gen_tpls g names -> ~ In (fst (request gen_tpls g c k)) names.
Proof. exact (fresh_wrt_graph gen_tpls C18_templates_ok). Qed.
Print Assumptions C18_fresh_wrt_graph.

(* ... and keeps covering them together with the new name *)
Theorem C18_covers_preserved :
  forall g names c k, Covers gen_tpls g names ->
    Covers gen_tpls (snd (request gen_tpls g c k)) (fst (request gen_tpls g c k) :: names).
Proof. exact (covers_preserved gen_tpls C18_templates_ok). Qed.
Print Assumptions C18_covers_preserved.

(* non-vacuity: a concrete run, and the empty generator covers a graph of plain names *)
Example C18_example_run :
  fst (run gen_tpls [] [(CBlock, lit "synth_asign"); (CVar, lit "control");
                        (CBlock, lit "synth_asign"); (CRegion, lit "synth_asign")])
  = [lit "synth_asign_block_0"; lit "__scfg_control_var_0__";
     lit "synth_asign_block_1"; lit "synth_asign_region_2"].
Proof. vm_compute. reflexivity. Qed.

(* reserve_names reads every generated name back ... *)
Theorem C18_parse_render :
  forall c k i, parse gen_tpls (render (gen_tpls c) k i) = Some (k, i).
Proof. exact (parse_render gen_tpls C18_templates_ok). Qed.
Print Assumptions C18_parse_render.

(* ... so after reserving a set of names the generator covers it, from any state *)
Theorem C18_reserve_covers :
  forall names g, Covers gen_tpls (reserve gen_tpls g names) names.
Proof. exact (reserve_covers gen_tpls C18_templates_ok). Qed.
Print Assumptions C18_reserve_covers.

(* the full statement on the model of SCFG's discipline (construction and
   add_block reserve; sub-graphs share the generator): after ANY history of
   constructions, block insertions and requests, a requested name is neither
   the name of a block present nor a name handed out before *)
Theorem C18_request_fresh :
  forall ops c k,
    let '(g, present, issued) := fold_left (step gen_tpls) ops ([], [], []) in
    ~ In (fst (request gen_tpls g c k)) present /\ ~ In (fst (request gen_tpls g c k)) issued.
Proof.
  intros ops c k.
  exact (request_fresh gen_tpls C18_templates_ok ops ([], [], []) c k (init_inv gen_tpls)).
Qed.
Print Assumptions C18_request_fresh.

Example C18_example_reload :
  (* a graph read back holds synth_return_block_0; the next request of that kind gets index 1 *)
  fst (request gen_tpls (reserve gen_tpls [] [lit "synth_return_block_0"; lit "0"; lit "__scfg_exit_var_3__"])
               CBlock (lit "synth_return")) = lit "synth_return_block_1".
Proof. vm_compute. reflexivity. Qed.

(* without reservation (the library before commit e909fc8) the hypothesis of
   C18_fresh_wrt_graph fails: the empty generator does not cover a graph that
   holds a generator-shaped name *)
Theorem C18_fresh_generator_does_not_cover_refuted :
  exists names, ~ Covers gen_tpls [] names /\
                In (fst (request gen_tpls [] CBlock (lit "synth_return"))) names.
Proof.
  exists [lit "synth_return_block_0"]. split.
  - intros H. specialize (H CBlock (lit "synth_return") 0%N). cbn in H.
    assert (Hin : In (render (gen_tpls CBlock) (lit "synth_return") 0) [lit "synth_return_block_0"])
      by (left; vm_compute; reflexivity).
    specialize (H Hin). vm_compute in H. discriminate.
  - left. vm_compute. reflexivity.
Qed.
Print Assumptions C18_fresh_generator_does_not_cover_refuted.

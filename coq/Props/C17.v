(* C17 — rendering draws exactly the graph (structure; label text is compared by
   the harness, not proved). *)
From Coq Require Import List ZArith.
Import ListNotations.
From V Require Import Valid.Hier Valid.FlatRegion Model.IterHier Model.Render.

(* exactly one node per non-region block and one cluster per region, in
   hierarchy order (descendants = every block and region below p) *)
Theorem C17_nodes_and_clusters :
  forall h fuel p,
    flat_map strip (render_nodes h fuel p) =
    map (fun x => (x, node_is_region h x)) (descendants h fuel p).
Proof. exact nodes_census. Qed.
Print Assumptions C17_nodes_and_clusters.

(* clusters nest: every opened cluster is closed, innermost first *)
Theorem C17_clusters_nested : forall h fuel p d, balance (render_nodes h fuel p) d = Some d.
Proof. exact nodes_balanced. Qed.
Print Assumptions C17_clusters_nested.

(* an edge a -> b is drawn exactly for the jump targets (solid) and back edges
   (dashed) t of a non-region block a of the iteration, b being the innermost header of t *)
Theorem C17_edges :
  forall h order a b dashed,
    In (REdge a b dashed) (render_edges h order) <->
    In a order /\ exists n t, find h a = Some n /\ is_region n = false /\
      enter_flat h (S (length h)) t = Some b /\
      (if dashed then In t (n_be n) else In t (jump_targets n) /\ find h t <> None).
Proof. exact edges_census. Qed.
Print Assumptions C17_edges.

Local Open Scope Z_scope.
Example C17_example :
  let h := [ mkNode 1 0 [] [] (KRegion 1 0 0 [5; 10; 4] 0 true);
             mkNode 5 1 [10] [] (KOrig 0);
             mkNode 10 1 [4] [] (KRegion 2 2 3 [2; 3] 1 true);
             mkNode 2 10 [3] [] (KOrig 0);
             mkNode 3 10 [4; 2] [2] (KOrig 0);
             mkNode 4 1 [] [] (KOrig 0) ] in
  render_nodes h 7 1 = [CNode 5; COpen 10; CNode 2; CNode 3; CClose; CNode 4] /\
  render_edges h [5; 10; 2; 3; 4] = [REdge 5 2 false; REdge 2 3 false; REdge 3 4 false; REdge 3 2 true].
Proof. vm_compute. split; reflexivity. Qed.

(* C02 — restructuring accepts every closed CFG.
   The universal statement over the whole pipeline is NOT proved.  Proved here:
   totality of the components that own the anchored assertion sites.  The
   pipeline-level claim is decided by running the implementation on every
   closed CFG up to a node bound, on generated ones beyond it and on the CFGs
   of real functions (see the evidence file). *)
From Coq Require Import List ZArith.
Import ListNotations.
From V Require Import Valid.Hier Model.Graph Model.Queries Model.Edits Model.Iter.
From Coq Require Import Lia.
From V Require Import Model.Pipe Model.PipeBounded Model.PipeBounded4.

(* value-table maintenance (basic_block.py: assert len(diff) == 1): with the
   same number of targets the rewrite is positional and never fails *)
Theorem C02_table_rewrite_total :
  forall b new_jt, length new_jt = length (e_jt b) -> replace_jt b new_jt <> None.
Proof. exact replace_jt_total. Qed.
Print Assumptions C02_table_rewrite_total.

(* unique-head assumption (scfg.py: find_head): succeeds exactly when a unique
   un-targeted block exists *)
Theorem C02_find_head_total :
  forall g h, NoDup (keys g) -> In h (keys g) -> ~ Targeted g h ->
    (forall k, In k (keys g) -> k <> h -> Targeted g k) -> find_head g = Some h.
Proof. exact find_head_complete. Qed.
Print Assumptions C02_find_head_total.

(* the iterators used by branch discovery and code generation terminate on every graph *)
Theorem C02_iterators_total :
  forall level succs head, NoDup level -> inlevel level head = true ->
    exists l, view level succs head = Some l.
Proof.
  intros level succs head Hnd Hh. destruct (view_spec level succs head Hnd Hh) as [l [E _]]. eauto.
Qed.
Print Assumptions C02_iterators_total.

(* bounded form over the MODEL of the whole pipeline: on every closed graph with at most
   4 blocks all three stages complete (no assertion, key error, missing exit or exhausted fuel) *)
Theorem C02_pipeline_model_le4 :
  forall n g, (n <= 4)%nat -> In g (closed_graphs n) ->
    exists s0 s1 s2,
      p_stage nmU 0 (init_state g) topU = POk s0 /\ p_stage nmU 1 s0 topU = POk s1 /\
      p_stage nmU 2 s1 topU = POk s2.
Proof.
  intros n g Hn Hin. destruct (pipeline_good_le4 n g Hn Hin) as [s0 [s1 [s2 [A0 [_ [A1 [_ [A2 _]]]]]]]].
  exists s0, s1, s2. auto.
Qed.
Print Assumptions C02_pipeline_model_le4.

Theorem C02_input_space_le4 :
  map (fun n => length (closed_graphs n)) [1; 2; 3; 4]%nat = [1; 2; 60; 3816]%nat.
Proof. exact closed_counts. Qed.
Print Assumptions C02_input_space_le4.

(* ---------- the edits never abort, for ALL graphs / hierarchies (Model/Total.v, Model/Total2.v) ----------
   The models return an explicit result for every exception the Python can raise.  Under the preconditions
   the callers establish, every edit returns Ok.  The preconditions of the two hierarchy-level edits are
   booleans which the correspondence check evaluates on every call the pipeline makes. *)
From V Require Import Model.Edits2 Model.LoopEdit Model.LoopSpec Model.Extract Model.CbHier Model.Total Model.Total2.

(* header unification on a flat graph: distinct existing predecessors, names the predecessors do not
   bear, one name per distinct successor in S of each predecessor *)
Theorem C02_header_unification_total :
  forall new var S g preds names cls,
    NoDup preds ->
    (forall p, In p preds -> efind g p <> None) ->
    (forall a, In a names -> ~ In a preds) ->
    (need S g preds <= length names)%nat ->
    exists g', insert_cb g new var preds S names cls = Ok g'.
Proof. exact insert_cb_total. Qed.
Print Assumptions C02_header_unification_total.

(* loop rotation: the loop has an exit, the processed blocks are distinct, exist and carry no value table,
   one fresh name per arc that leaves the loop or goes back to a header *)
Theorem C02_loop_rotation_total :
  forall g hd headers exits todo unified header_tbl isback latch sexit ev bv names,
    exits <> [] ->
    NoDup todo ->
    (forall p, In p todo -> exists b, efind g p = Some b /\ nonbranch b) ->
    (forall a, In a names -> ~ In a todo) ->
    (forall c, l_headers c = headers -> l_exits c = exits -> l_isback c = isback -> (needl c g todo <= length names)%nat) ->
    exists g', loop_rotate g hd headers exits todo unified header_tbl isback latch sexit ev bv names = Ok g'.
Proof. exact loop_rotate_total. Qed.
Print Assumptions C02_loop_rotation_total.

(* update_exiting: a proper chain of exiting blocks (each the child of the region above it) *)
Theorem C02_update_exiting_total :
  forall a b f h e, chain_ok f h e = true -> exists h', upd_exiting f h e a b = XOk h'.
Proof. intros a b f h e H. destruct (upd_exiting_total a b f h e H) as [h' [E _]]. eauto. Qed.
Print Assumptions C02_update_exiting_total.

(* region extraction at any level *)
Theorem C02_region_extraction_total :
  forall h lvl blocks entries hd ex rk rname,
    pre_extract h lvl entries ex = true -> exists h', extract h lvl blocks entries hd ex rk rname = XOk h'.
Proof. exact extract_total. Qed.
Print Assumptions C02_region_extraction_total.

(* header unification at any level, predecessors of any kind *)
Theorem C02_header_unification_any_level_total :
  forall h lvl new var preds Ss names,
    pre_cbh h lvl preds Ss names = true -> exists h', insert_cb_h h lvl new var preds Ss names = XOk h'.
Proof. exact insert_cb_h_total. Qed.
Print Assumptions C02_header_unification_any_level_total.

(* non-vacuity: the preconditions hold on concrete hierarchies (a region predecessor with its exiting
   block; an entry of a loop) *)
Example C02_preconditions_hold_somewhere :
  (pre_cbh [ mkNode 1 0 [] [] (KRegion 1 0 0 [5; 20; 7; 8] 0 true);
            mkNode 5 1 [7; 8] [] (KOrig 1);
            mkNode 20 1 [8] [] (KRegion 2 21 21 [21] 1 true);
            mkNode 21 20 [21; 8] [21] (KOrig 1);
            mkNode 7 1 [] [] (KOrig 1); mkNode 8 1 [] [] (KOrig 1) ] 1 [5; 20] [7; 8] [30; 31; 32] = true /\
   pre_extract [ mkNode 1 0 [] [] (KRegion 1 0 0 [5; 6; 7] 0 true);
                mkNode 5 1 [6] [] (KOrig 1); mkNode 6 1 [6; 7] [6] (KOrig 1); mkNode 7 1 [] [] (KOrig 1) ] 1 [5] 6 = true)%Z.
Proof. split; vm_compute; reflexivity. Qed.

(* dominator fix-point (transformations.py: assert len(new_doms) < len(doms[n])): for ALL graphs and ANY
   iteration order of the successor sets the work-list returns within the stated fuel - the assertion and
   the key look-ups never fail (Model/DomWl.v line by line, Model/DomWlProof.v) *)
From V Require Import Model.Queries Model.DomWl Model.DomWlProof.
Theorem C02_dominator_worklist_total :
  forall nodes preds succs B,
    NoDup nodes ->
    (forall n, In n nodes -> incl (preds n) nodes) ->
    (forall n, In n nodes -> incl (succs n) nodes) ->
    (forall n p, In n nodes -> In p nodes -> (In p (preds n) <-> In n (succs p))) ->
    (forall n, (length (succs n) <= B)%nat) ->
    forall ents, (forall n, In n ents <-> In n nodes /\ preds n = []) ->
    forall fuel,
      ents <> [] ->
      (mu nodes B (init_D nodes ents) (init_stk nodes ents) < fuel)%nat ->
      exists D log, find_dominators nodes ents preds succs fuel = WOk D log.
Proof.
  intros nodes preds succs B H1 H2 H3 H4 H5 ents He fuel H6 H7.
  destruct (find_dominators_correct nodes preds succs B H1 H2 H3 H4 H5 ents He fuel H6 H7) as [D [lg [E _]]]. eauto.
Qed.
Print Assumptions C02_dominator_worklist_total.

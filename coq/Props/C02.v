(* C02 — restructuring accepts every closed CFG.
   The universal statement over the whole pipeline is NOT proved.  Proved here:
   totality of the components that own the anchored assertion sites.  The
   pipeline-level claim is decided by running the implementation on every
   closed CFG up to a node bound, on generated ones beyond it and on the CFGs
   of real functions (see the evidence file). *)
From Coq Require Import List ZArith.
Import ListNotations.
From V Require Import Valid.Hier Model.Graph Model.Queries Model.Edits Model.Iter.

(* value-table maintenance (basic_block.py: assert len(diff) == 1): with the
   same number of targets the rewrite is positional and never fails *)
Theorem C02_table_rewrite_total :
  forall b new_jt, length new_jt = length (e_jt b) -> replace_jt b new_jt <> None.
Proof. exact replace_jt_total. Qed.
Print Assumptions C02_table_rewrite_total.

(* unique-head assumption (scfg.py: find_head): succeeds exactly when a unique
   un-targeted block exists *)
Theorem C02_find_head_total :
  forall g h, NoDup (keys g) -> In h (keys g) -> ~ Targeted g h ->
    (forall k, In k (keys g) -> k <> h -> Targeted g k) -> find_head g = Some h.
Proof. exact find_head_complete. Qed.
Print Assumptions C02_find_head_total.

(* the iterators used by branch discovery and code generation terminate on every graph *)
Theorem C02_iterators_total :
  forall level succs head, NoDup level -> inlevel level head = true ->
    exists l, view level succs head = Some l.
Proof.
  intros level succs head Hnd Hh. destruct (view_spec level succs head Hnd Hh) as [l [E _]]. eauto.
Qed.
Print Assumptions C02_iterators_total.

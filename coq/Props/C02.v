(* C02 — restructuring accepts every closed CFG.
   The universal statement over the whole pipeline is NOT proved.  Proved here:
   totality of the components that own the anchored assertion sites.  The
   pipeline-level claim is decided by running the implementation on every
   closed CFG up to a node bound, on generated ones beyond it and on the CFGs
   of real functions (see the evidence file). *)
From Coq Require Import List ZArith.
Import ListNotations.
From V Require Import Valid.Hier Model.Graph Model.Queries Model.Edits Model.Iter.
From Coq Require Import Lia.
From V Require Import Model.Pipe Model.PipeBounded Model.PipeBounded4.

(* value-table maintenance (basic_block.py: assert len(diff) == 1): with the
   same number of targets the rewrite is positional and never fails *)
Theorem C02_table_rewrite_total :
  forall b new_jt, length new_jt = length (e_jt b) -> replace_jt b new_jt <> None.
Proof. exact replace_jt_total. Qed.
Print Assumptions C02_table_rewrite_total.

(* unique-head assumption (scfg.py: find_head): succeeds exactly when a unique
   un-targeted block exists *)
Theorem C02_find_head_total :
  forall g h, NoDup (keys g) -> In h (keys g) -> ~ Targeted g h ->
    (forall k, In k (keys g) -> k <> h -> Targeted g k) -> find_head g = Some h.
Proof. exact find_head_complete. Qed.
Print Assumptions C02_find_head_total.

(* the iterators used by branch discovery and code generation terminate on every graph *)
Theorem C02_iterators_total :
  forall level succs head, NoDup level -> inlevel level head = true ->
    exists l, view level succs head = Some l.
Proof.
  intros level succs head Hnd Hh. destruct (view_spec level succs head Hnd Hh) as [l [E _]]. eauto.
Qed.
Print Assumptions C02_iterators_total.

(* bounded form over the MODEL of the whole pipeline: on every closed graph with at most
   4 blocks all three stages complete (no assertion, key error, missing exit or exhausted fuel) *)
Theorem C02_pipeline_model_le4 :
  forall n g, (n <= 4)%nat -> In g (closed_graphs n) ->
    exists s0 s1 s2,
      p_stage nmU 0 (init_state g) topU = POk s0 /\ p_stage nmU 1 s0 topU = POk s1 /\
      p_stage nmU 2 s1 topU = POk s2.
Proof.
  intros n g Hn Hin. destruct (pipeline_good_le4 n g Hn Hin) as [s0 [s1 [s2 [A0 [_ [A1 [_ [A2 _]]]]]]]].
  exists s0, s1, s2. auto.
Qed.
Print Assumptions C02_pipeline_model_le4.

Theorem C02_input_space_le4 :
  map (fun n => length (closed_graphs n)) [1; 2; 3; 4]%nat = [1; 2; 60; 3816]%nat.
Proof. exact closed_counts. Qed.
Print Assumptions C02_input_space_le4.

(* C05 — original blocks are conserved. *)
From Coq Require Import ZArith List.
Import ListNotations.
From V Require Import Valid.Hier Valid.FlatRegion Valid.Cons Valid.Run.
From Coq Require Import Lia.
From V Require Import Model.Pipe Model.PipeBounded Model.PipeBounded4 Model.Graph Model.Edits Model.Edits2 Model.JoinPath Model.LoopEdit Model.LoopSpec Model.Extract Model.ExtractPath Model.Conserve Model.CbHier Model.CbHierPath.

Theorem C05_checker_sound : forall g h, cons_check g h = true -> Conserved g h.
Proof. exact cons_check_sound. Qed.
Print Assumptions C05_checker_sound.

Theorem C05_driver_column :
  forall rows g h, decode rows = Some (g, h) -> col 4 rows = 1%Z -> Conserved g h.
Proof.
  intros rows g h Hd. destruct (run_instance_sound rows g h Hd) as [_ [_ [_ [A _]]]]. exact A.
Qed.
Print Assumptions C05_driver_column.

(* bounded form over the MODEL of the whole pipeline (nesting as the graphs hold it; the
   implementation's parent pointers are not part of the model) *)
Theorem C05_pipeline_model_le4 :
  forall n g, (n <= 4)%nat -> In g (closed_graphs n) ->
    exists s0 s1 s2,
      p_stage nmU 0 (init_state g) topU = POk s0 /\ p_stage nmU 1 s0 topU = POk s1 /\
      p_stage nmU 2 s1 topU = POk s2 /\
      Conserved (orig_of g) (to_hier s0 topU) /\ Conserved (orig_of g) (to_hier s1 topU) /\ Conserved (orig_of g) (to_hier s2 topU).
Proof.
  intros n g Hn Hin. destruct (pipeline_good_le4 n g Hn Hin) as [s0 [s1 [s2 [A0 [B0 [A1 [B1 [A2 B2]]]]]]]].
  exists s0, s1, s2. split; [exact A0|]. split; [exact A1|]. split; [exact A2|].
  split; [apply B0|]. split; [apply B1|apply B2].
Qed.
Print Assumptions C05_pipeline_model_le4.

(* the first stage, for ALL graphs (no bound): closing the graph keeps every input block, once, as an
   original block with its successors in place; an exit may only gain the edge to the common exit *)
Theorem C05_closing_conserves :
  forall g top fresh en g',
    Input g top fresh -> oentry (og g) = Some en -> join_returns g fresh 3 = Ok g' ->
    Conserved (og g) (ehier top g').
Proof. exact join_returns_conserved. Qed.
Print Assumptions C05_closing_conserves.

(* the individual edits, for ALL graphs (no bound), over their line-by-line models: an original block
   is still there afterwards, of the same class, with the same back edges and the same number of
   successors, each successor unchanged or renamed to a block (region) the edit inserted *)
Theorem C05_header_unification_conserves :
  forall g top new var preds Ss names cls g',
  NoDup preds /\ ~ In new preds ->
  (NoDup names /\ forall a, In a names -> efind g a = None /\ a <> new /\ ~ In a preds /\ ~ In a Ss /\ a <> top) ->
  (forall p b, In p preds -> efind g p = Some b ->
      NoDup (e_jt b) /\ (forall a, In a names -> ~ In a (e_jt b)) /\
      (forall c v t, e_kind b = EBranch c v t -> NoDup (map fst t))) ->
  efind g new = None ->
  insert_cb g new var preds Ss names cls = Ok g' ->
  forall x b c, efind g x = Some b -> e_kind b = EPlain c ->
    exists b', efind g' x = Some b' /\ e_kind b' = EPlain c /\ e_be b' = e_be b /\
      length (e_jt b') = length (e_jt b) /\
      forall k s t', nth_error (e_jt b) k = Some s -> nth_error (e_jt b') k = Some t' -> t' = s \/ In t' names.
Proof. exact cb_conserves. Qed.
Print Assumptions C05_header_unification_conserves.

Theorem C05_loop_rotation_conserves :
  forall g top hd headers exits todo unified header_tbl isback latch sexit ev bv names g',
  let needs := match exits with _ :: _ :: _ => true | _ => false end in
  loop_rotate g hd headers exits todo unified header_tbl isback latch sexit ev bv names = Ok g' ->
  (NoDup todo /\
   forall p, In p todo -> exists b, efind g p = Some b /\ e_be b = [] /\ NoDup (e_jt b) /\
                                    (forall a, In a names -> ~ In a (e_jt b)) /\
                                    (nonbranch b \/
                                     forall t, In t (e_jt b) -> zmem t exits = false /\ (zmem t headers && isback p t)%bool = false)) ->
  (NoDup names /\
   forall a, In a names -> efind g a = None /\ ~ In a todo /\ a <> latch /\ a <> sexit /\ a <> top) ->
  efind g latch = None /\ latch <> top /\ ~ In latch todo ->
  (needs = true -> efind g sexit = None /\ sexit <> latch /\ sexit <> top /\ ~ In sexit todo) ->
  ~ In top (ekeys g) ->
  forall x b c, efind g x = Some b -> e_kind b = EPlain c ->
    exists b', efind g' x = Some b' /\ e_kind b' = EPlain c /\ e_be b' = e_be b /\
      length (e_jt b') = length (e_jt b) /\
      forall k t t', nth_error (e_jt b) k = Some t -> nth_error (e_jt b') k = Some t' -> t' = t \/ In t' names.
Proof.
  intros g top hd headers exits todo unified header_tbl isback latch sexit ev bv names g' needs.
  exact (rotate_conserves g top hd headers exits todo unified header_tbl isback latch sexit ev bv names g').
Qed.
Print Assumptions C05_loop_rotation_conserves.

Theorem C05_region_extraction_conserves :
  forall hd rname h lvl blocks entries ex rk h',
  rname <> hd ->
  extract h lvl blocks entries hd ex rk rname = XOk h' ->
  find h rname = None ->
  (forall x n, find h x = Some n -> is_region n = false -> Good hd rname n) ->
  (exists nl, find h lvl = Some nl /\ is_region nl = true) ->
  (exists rank : name -> nat,
     (forall x n rk0 h0 e0 c0 p0 o0, find h x = Some n -> n_kind n = KRegion rk0 h0 e0 c0 p0 o0 -> (rank h0 < rank x)%nat) /\
     (rank hd < rank lvl)%nat) ->
  forall x n p, find h x = Some n -> n_kind n = KOrig p ->
    exists n', find h' x = Some n' /\ n_kind n' = KOrig p /\ length (n_jt n') = length (n_jt n) /\
      forall k t t', nth_error (n_jt n) k = Some t -> nth_error (n_jt n') k = Some t' -> t' = t \/ (t = hd /\ t' = rname).
Proof. exact extract_conserves. Qed.
Print Assumptions C05_region_extraction_conserves.

(* header unification at ANY level of a hierarchy, with ANY kind of predecessor, for ALL hierarchies:
   an original block keeps its payload and its arity; each successor stays, or - when it is one of the
   unified headers - becomes an assignment block of the level that sets the control variable and goes to
   the new head *)
Theorem C05_header_unification_any_level_conserves :
  forall h lvl new var preds Ss names h',
    insert_cb_h h lvl new var preds Ss names = XOk h' ->
    (exists rank : name -> nat, forall x n, find h x = Some n -> (rank (n_parent n) < rank x)%nat) ->
    (exists nl0, find h lvl = Some nl0 /\ is_region nl0 = true) ->
    (forall p, In p preds -> p <> lvl /\ exists n0, find h p = Some n0 /\ n_parent n0 = lvl) ->
    (NoDup names /\ forall a, In a names -> find h a = None /\ ~ In a Ss /\ a <> new) ->
    find h new = None ->
    (forall x n, find h x = Some n -> is_region n = false ->
       NoDup (n_jt n) /\ (forall a, In a names -> ~ In a (n_jt n)) /\
       (forall c v tbl, n_kind n = KBranch c v tbl -> NoDup (map fst tbl) /\ v <> var) /\
       (forall a, n_kind n = KAssign a -> forall p, In p a -> fst p <> var)) ->
    forall x n p, find h x = Some n -> n_kind n = KOrig p ->
      exists n', find h' x = Some n' /\ n_kind n' = KOrig p /\ length (n_jt n') = length (n_jt n) /\
        forall k t t', nth_error (n_jt n) k = Some t -> nth_error (n_jt n') k = Some t' ->
          t' = t \/ (In t Ss /\ exists i, find h' t' = Some (mkNode t' lvl [new] [] (KAssign [(var, i)]))).
Proof.
  intros h lvl new var preds Ss names h'. exact (insert_cb_h_conserves h lvl new var preds Ss names h').
Qed.
Print Assumptions C05_header_unification_any_level_conserves.

(* every edit that works on the dictionary of ONE level and is written back (both loop rotations, the early
   return, the insertion in front of one successor) keeps every original block of the whole hierarchy - once,
   same payload and parent, successors position by position unchanged or renamed to a name that was unused (an
   inserted block; a block without successors may gain one such successor: the common exit) - and turns nothing else into an original block (Model/LevelCons.v).
   The condition is one boolean about the new dictionary, evaluated on every call of loop_restructure_helper
   and insert_block the pipeline makes. *)
From V Require Import Model.Edits Model.LoopHier Model.LevelCons.
Theorem C05_level_edit_conserves_b :
  forall h lvl g', cons_okb h lvl g' = true ->
    (forall x n p, find h x = Some n -> n_kind n = KOrig p ->
       exists n', find (write_back h lvl g') x = Some n' /\ n_kind n' = KOrig p /\
                  n_parent n' = n_parent n /\ SuccsKept h (n_jt n') (n_jt n)) /\
    (forall x n' p, find (write_back h lvl g') x = Some n' -> n_kind n' = KOrig p ->
       exists n, find h x = Some n /\ n_kind n = KOrig p).
Proof. exact level_edit_conserves_b. Qed.
Print Assumptions C05_level_edit_conserves_b.

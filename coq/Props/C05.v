(* C05 — original blocks are conserved. *)
From Coq Require Import ZArith List.
From V Require Import Valid.Hier Valid.FlatRegion Valid.Cons Valid.Run.

Theorem C05_checker_sound : forall g h, cons_check g h = true -> Conserved g h.
Proof. exact cons_check_sound. Qed.
Print Assumptions C05_checker_sound.

Theorem C05_driver_column :
  forall rows g h, decode rows = Some (g, h) -> col 4 rows = 1%Z -> Conserved g h.
Proof.
  intros rows g h Hd. destruct (run_instance_sound rows g h Hd) as [_ [_ [_ [A _]]]]. exact A.
Qed.
Print Assumptions C05_driver_column.

(* C06 — control variables are assigned before use and in range, on all paths. *)
From Coq Require Import ZArith List.
Import ListNotations.
From V Require Import Valid.Hier Valid.Walk Valid.FlatRegion Valid.Run.
From Coq Require Import Lia.
From V Require Import Model.Pipe Model.PipeBounded Model.PipeBounded4 Model.Graph Model.Edits Model.Edits2 Model.JoinPath Model.Refine Model.CbPath Model.LoopEdit Model.LoopSpec Model.LoopPath Model.LoopPath2 Model.TableSpec Model.Extract Model.CbHier Model.CbHierPath.

Theorem C06_checker_sound : forall h, c06_check h = true -> CtrlSafe h.
Proof. exact c06_check_sound. Qed.
Print Assumptions C06_checker_sound.

Theorem C06_closed_set_sound :
  forall h resolve strict fuel R entry,
    ctrl_check h resolve strict fuel R entry = true ->
    forall ds, CTrace h resolve strict entry nil ds.
Proof. exact ctrl_check_sound. Qed.
Print Assumptions C06_closed_set_sound.

Theorem C06_driver_column :
  forall rows g h, decode rows = Some (g, h) -> col 5 rows = 1%Z -> CtrlSafe h.
Proof.
  intros rows g h Hd. destruct (run_instance_sound rows g h Hd) as [_ [_ [_ [_ [A _]]]]]. exact A.
Qed.
Print Assumptions C06_driver_column.

(* bounded form over the MODEL of the whole pipeline (nesting as the graphs hold it; the
   implementation's parent pointers are not part of the model) *)
Theorem C06_pipeline_model_le4 :
  forall n g, (n <= 4)%nat -> In g (closed_graphs n) ->
    exists s0 s1 s2,
      p_stage nmU 0 (init_state g) topU = POk s0 /\ p_stage nmU 1 s0 topU = POk s1 /\
      p_stage nmU 2 s1 topU = POk s2 /\
      CtrlSafe (to_hier s0 topU) /\ CtrlSafe (to_hier s1 topU) /\ CtrlSafe (to_hier s2 topU).
Proof.
  intros n g Hn Hin. destruct (pipeline_good_le4 n g Hn Hin) as [s0 [s1 [s2 [A0 [B0 [A1 [B1 [A2 B2]]]]]]]].
  exists s0, s1, s2. split; [exact A0|]. split; [exact A1|]. split; [exact A2|].
  split; [apply B0|]. split; [apply B1|apply B2].
Qed.
Print Assumptions C06_pipeline_model_le4.

(* the first stage, for ALL graphs (no bound): the closed graph reads no control variable and every decision list can be walked to its end *)
Theorem C06_closing_ctrl_safe :
  forall g top fresh en g',
    Input g top fresh -> oentry (og g) = Some en -> join_returns g fresh 3 = Ok g' -> CtrlSafe (ehier top g').
Proof. exact join_returns_ctrl. Qed.
Print Assumptions C06_closing_ctrl_safe.

(* header unification, for ALL graphs (no bound), in the strict reading (a branching block must find
   its variable assigned and not yet read by it since): if every decision list can be walked from an
   original block of the graph without getting stuck, the same holds after
   insert_block_and_control_blocks - the new head reads the new variable right after the arc's own
   assignment block set it, to a key of the head's table, and no old block is disturbed.
   Hypotheses as in C01_header_unification_preserves_paths. *)
Theorem C06_header_unification_ctrl_safe :
  forall g top new var preds Ss names cls g',
    NoDup preds /\ ~ In new preds ->
    (NoDup names /\ forall a, In a names ->
        efind g a = None /\ a <> new /\ ~ In a preds /\ ~ In a Ss /\ a <> top) ->
    (forall p b, In p preds -> efind g p = Some b ->
        NoDup (e_jt b) /\ (forall a, In a names -> ~ In a (e_jt b)) /\
        (forall c v t, e_kind b = EBranch c v t -> NoDup (map fst t))) ->
    ~ In top (ekeys g) /\ top <> new ->
    efind g new = None ->
    (forall x b t, efind g x = Some b -> In t (e_jt b) -> In t (ekeys g)) ->
    (forall s, In s Ss -> In s (ekeys g)) ->
    (forall x b, efind g x = Some b ->
        match e_kind b with
        | EAssign a => forall p, In p a -> fst p <> var
        | EBranch _ v _ => v <> var
        | EPlain _ => True
        end) ->
    insert_cb g new var preds Ss names cls = Ok g' ->
    forall n e e' ds,
      (exists b, efind g n = Some b /\ e_kind b = EPlain 100) ->
      E (Fv var) e e' ->
      CTrace (ehier top g) (resolve_flat (ehier top g)) true n e ds ->
      CTrace (ehier top g') (resolve_flat (ehier top g')) true n e' ds.
Proof. intros g top new var preds Ss names cls g'. exact (insert_cb_keeps_ctrace g top new var preds Ss names cls g' true). Qed.
Print Assumptions C06_header_unification_ctrl_safe.

(* loop rotation, for ALL graphs (no bound), loops with one header, in the strict reading: if every
   decision list can be walked from an original block without getting stuck, the same holds after
   LoopEdit.loop_rotate - each assignment block sets the backedge variable (and, with several exits,
   the exit variable) right before the latch (and the exit branch) reads it, to a key of its table.
   Hypotheses as in C01_loop_rotation_preserves_paths. *)
Theorem C06_loop_rotation_ctrl_safe :
  forall g top hd exits todo isback latch sexit ev bv names g',
    let needs := match exits with _ :: _ :: _ => true | _ => false end in
    loop_rotate g hd [hd] exits todo false [] isback latch sexit ev bv names = Ok g' ->
    (NoDup todo /\
     forall p, In p todo -> exists b, efind g p = Some b /\ nonbranch b /\ e_be b = [] /\ NoDup (e_jt b) /\
                                      (forall a, In a names -> ~ In a (e_jt b))) ->
    (NoDup names /\
     forall a, In a names -> efind g a = None /\ ~ In a todo /\ a <> latch /\ a <> sexit /\ a <> top) ->
    efind g latch = None /\ latch <> top /\ ~ In latch todo ->
    (needs = true -> efind g sexit = None /\ sexit <> latch /\ sexit <> top /\ ~ In sexit todo) ->
    NoDup exits /\ (forall x, In x exits -> In x (ekeys g)) /\ ~ In hd exits ->
    In hd (ekeys g) -> ~ In top (ekeys g) ->
    (forall x b t, efind g x = Some b -> In t (e_jt b) -> In t (ekeys g)) ->
    (ev <> bv /\ forall x b, efind g x = Some b ->
        match e_kind b with
        | EAssign a => forall p, In p a -> fst p <> ev /\ fst p <> bv
        | EBranch _ v _ => v <> ev /\ v <> bv
        | EPlain _ => True
        end) ->
    forall n e e' ds,
      (exists b, efind g n = Some b /\ e_kind b = EPlain 100) ->
      E (Fl ev bv) e e' ->
      CTrace (ehier top g) (resolve_flat (ehier top g)) true n e ds ->
      CTrace (ehier top g') (resolve_flat (ehier top g')) true n e' ds.
Proof.
  intros g top hd exits todo isback latch sexit ev bv names g' needs.
  exact (loop_rotate_keeps_ctrace g top hd exits todo isback latch sexit ev bv names g' true).
Qed.
Print Assumptions C06_loop_rotation_ctrl_safe.

(* the same for loops with several headers (unification, then rotation on the unified head): the head
   reads its variable right after an entry assignment block or, on a back edge, after the assignment
   block before the latch set it; the exit branch reads the same variable after an exit assignment *)
Theorem C06_multi_header_loop_rotation_ctrl_safe :
  forall g top H v entries headers names_cb g1 exits todo header_tbl isback latch sexit bv names g2,
    let needs := match exits with _ :: _ :: _ => true | _ => false end in
    insert_cb g H v entries headers names_cb C_HEAD = Ok g1 ->
    efind g1 H = Some (mkE headers [] (EBranch C_HEAD v header_tbl)) ->
    loop_rotate g1 H headers exits todo true header_tbl isback latch sexit v bv names = Ok g2 ->
    NoDup entries /\ ~ In H entries ->
    (NoDup names_cb /\ forall a, In a names_cb ->
        efind g a = None /\ a <> H /\ ~ In a entries /\ ~ In a headers /\ a <> top) ->
    (forall p b, In p entries -> efind g p = Some b ->
        NoDup (e_jt b) /\ (forall a, In a names_cb -> ~ In a (e_jt b)) /\
        (forall c w t, e_kind b = EBranch c w t -> NoDup (map fst t))) ->
    ~ In top (ekeys g) /\ top <> H ->
    efind g H = None ->
    (forall x b t, efind g x = Some b -> In t (e_jt b) -> In t (ekeys g)) ->
    NoDup headers /\ (forall s, In s headers -> In s (ekeys g)) /\ (forall s, In s headers -> ~ In s exits) ->
    (v <> bv /\ forall x b, efind g x = Some b ->
        match e_kind b with
        | EAssign a => forall p, In p a -> fst p <> v /\ fst p <> bv
        | EBranch _ w _ => w <> v /\ w <> bv
        | EPlain _ => True
        end) ->
    (NoDup todo /\ forall p, In p todo -> p = H \/
        (~ In p entries /\ exists b, efind g p = Some b /\ nonbranch b /\ e_be b = [] /\ NoDup (e_jt b) /\
                                     (forall a, In a names -> ~ In a (e_jt b)))) ->
    (forall t, In t headers -> isback H t = false) ->
    (NoDup names /\ forall a, In a names ->
        efind g a = None /\ ~ In a names_cb /\ a <> H /\ ~ In a todo /\ a <> latch /\ a <> sexit /\ a <> top) ->
    efind g latch = None /\ ~ In latch names_cb /\ latch <> H /\ latch <> top /\ ~ In latch todo ->
    (needs = true ->
        efind g sexit = None /\ ~ In sexit names_cb /\ sexit <> H /\ sexit <> latch /\ sexit <> top /\ ~ In sexit todo) ->
    NoDup exits /\ (forall x, In x exits -> In x (ekeys g)) ->
    (forall t, In t headers -> exists p b k, In p entries /\ efind g p = Some b /\ nth_error (e_jt b) k = Some t) ->
    forall n e e' ds,
      (exists b, efind g n = Some b /\ e_kind b = EPlain 100) ->
      E (Fu v bv) e e' ->
      CTrace (ehier top g) (resolve_flat (ehier top g)) true n e ds ->
      CTrace (ehier top g2) (resolve_flat (ehier top g2)) true n e' ds.
Proof.
  intros g top H v entries headers names_cb g1 exits todo header_tbl isback latch sexit bv names g2 needs.
  exact (unified_rotation_keeps_ctrace g top H v entries headers names_cb g1 exits todo header_tbl isback
           latch sexit bv names g2 true).
Qed.
Print Assumptions C06_multi_header_loop_rotation_ctrl_safe.

(* value tables stay in step with the successors under every renaming: when a branching block has its
   successors replaced position by position (each kept or replaced by a name that was no successor),
   the rewritten table still names only successors and names every successor - for every table with
   distinct keys and every tuple of distinct successors (SyntheticBranch.replace_jump_targets) *)
Theorem C06_table_rewrite_keeps_tables_ok :
  forall tbl all_old new_jt res,
    NoDup (map fst tbl) -> length new_jt = length all_old ->
    (forall k s t, nth_error all_old k = Some s -> nth_error new_jt k = Some t -> t = s \/ ~ In t all_old) ->
    NoDup all_old ->
    table_rewrite tbl all_old new_jt all_old 0%nat [] = Some res ->
    table_ok_for tbl all_old -> table_ok_for res new_jt.
Proof. exact table_rewrite_keeps_ok. Qed.
Print Assumptions C06_table_rewrite_keeps_tables_ok.

(* header unification at any level, with any kind of predecessor, in the strict reading *)
Theorem C06_header_unification_any_level_ctrl_safe :
  forall h lvl new var preds Ss names h',
    insert_cb_h h lvl new var preds Ss names = XOk h' ->
    (exists rank : name -> nat, forall x n, find h x = Some n -> (rank (n_parent n) < rank x)%nat) ->
    (exists nl0, find h lvl = Some nl0 /\ is_region nl0 = true) ->
    (forall p, In p preds -> p <> lvl /\ exists n0, find h p = Some n0 /\ n_parent n0 = lvl) ->
    (NoDup names /\ forall a, In a names -> find h a = None /\ ~ In a Ss /\ a <> new) ->
    find h new = None ->
    (forall x n, find h x = Some n -> is_region n = false ->
       NoDup (n_jt n) /\ (forall a, In a names -> ~ In a (n_jt n)) /\
       (forall c v tbl, n_kind n = KBranch c v tbl -> NoDup (map fst tbl) /\ v <> var) /\
       (forall a, n_kind n = KAssign a -> forall p, In p a -> fst p <> var)) ->
    (forall x n t, find h x = Some n -> is_region n = false -> In t (n_jt n) -> enter_flat h (S (length h)) t <> None) ->
    (forall s, In s Ss -> enter_flat h (S (length h)) s <> None) ->
    forall n e e' ds,
      (exists b p, find h n = Some b /\ n_kind b = KOrig p) ->
      E (Fc var) e e' ->
      CTrace h (resolve_flat h) true n e ds -> CTrace h' (resolve_flat h') true n e' ds.
Proof.
  intros h lvl new var preds Ss names h'. exact (insert_cb_h_keeps_ctrace h lvl new var preds Ss names h' true).
Qed.
Print Assumptions C06_header_unification_any_level_ctrl_safe.

(* the loop rotation (one header) at ANY level of a hierarchy keeps "every decision list can be walked", in
   the strict reading: the CTrace twin of C01_loop_rotation_any_level_preserves_paths_b, same boolean premise *)
From V Require Import Model.LoopEdit Model.LoopHier Model.LoopPath Model.LoopHierApplic.
Theorem C06_loop_rotation_any_level_ctrl_safe_b :
  forall h lvl top hd exits todo isback latch sexit ev bv fresh,
    walk_pre_rot h lvl top hd exits todo isback latch sexit ev bv fresh = true ->
    exists nl g1 g1',
      find h lvl = Some nl /\ collect h (children_h nl) = Some g1 /\
      loop_rotate g1 hd [hd] exits todo false [] isback latch sexit ev bv fresh = Ok g1' /\
      forall n e e' ds,
        (exists b p, find h n = Some b /\ n_kind b = KOrig p) ->
        E (Fl ev bv) e e' ->
        CTrace h (resolve_flat h) true n e ds ->
        CTrace (write_back h lvl g1') (resolve_flat (write_back h lvl g1')) true n e' ds.
Proof.
  intros h lvl top hd exits todo isback latch sexit ev bv fresh.
  exact (loop_rotate_h_keeps_ctrace_b h lvl top hd exits todo isback latch sexit ev bv fresh true).
Qed.
Print Assumptions C06_loop_rotation_any_level_ctrl_safe_b.

(* the rotation of a loop with SEVERAL headers at ANY level: the CTrace twin of
   C01_unified_rotation_any_level_preserves_paths_b, same boolean premise, strict reading *)
From V Require Import Model.UniHierPath Model.UniHierApplic.
Theorem C06_unified_rotation_any_level_ctrl_safe_b :
  forall h lvl top H v entries headers names_cb exits todo isback latch sexit bv fresh,
    walk_pre_uni h lvl top H v entries headers names_cb exits todo isback latch sexit bv fresh = true ->
    exists nl g0 g1 tbl g1',
      find h lvl = Some nl /\ collect h (children_h nl) = Some g0 /\
      insert_cb g0 H v entries headers names_cb C_HEAD = Ok g1 /\ head_tbl g1 H v headers = Some tbl /\
      loop_rotate g1 H headers exits todo true tbl isback latch sexit v bv fresh = Ok g1' /\
      forall n e e' ds,
        (exists b p, find h n = Some b /\ n_kind b = KOrig p) ->
        E (Fu v bv) e e' ->
        CTrace h (resolve_flat h) true n e ds ->
        CTrace (write_back h lvl g1') (resolve_flat (write_back h lvl g1')) true n e' ds.
Proof.
  intros h lvl top H v entries headers names_cb exits todo isback latch sexit bv fresh.
  exact (unified_rotation_h_keeps_ctrace_b h lvl top H v entries headers names_cb exits todo isback latch sexit bv fresh true).
Qed.
Print Assumptions C06_unified_rotation_any_level_ctrl_safe_b.

(* the comparison "equal up to the order of the node list" made per call keeps the walkable decision lists *)
From V Require Import Model.HierEquiv Model.LoopHierApplic.
Theorem C06_compared_hierarchies_have_the_same_walkable_lists :
  forall a b top,
    xhier_eqb a b = true -> flat_okb a top true = true ->
    forall n e ds,
      (exists bn p, find a n = Some bn /\ n_kind bn = KOrig p) ->
      (CTrace a (resolve_flat a) true n e ds <-> CTrace b (resolve_flat b) true n e ds).
Proof. intros a b top. exact (compared_equal_same_ctrace a b top true). Qed.
Print Assumptions C06_compared_hierarchies_have_the_same_walkable_lists.

(* the per-call column of loop_restructure_helper (HelperCol.helper_col_of, values 1 / 3 / 4) also means: every
   decision list that can be walked in the hierarchy before the call can be walked, in the strict reading, in
   the hierarchy the implementation produced *)
From V Require Import Model.HelperCol.
Theorem C06_loop_helper_column_sound :
  forall h ha lvl loop headers entries exiting exits doms bnames vnames,
    let c := helper_col_of h ha lvl loop headers entries exiting exits doms bnames vnames in
    c = 1%Z \/ c = 3%Z \/ c = 4%Z ->
    exists F : Z -> Prop, forall n e e' ds,
      (exists b p, find h n = Some b /\ n_kind b = KOrig p) -> E F e e' ->
      CTrace h (resolve_flat h) true n e ds -> CTrace ha (resolve_flat ha) true n e' ds.
Proof.
  intros h ha lvl loop headers entries exiting exits doms bnames vnames.
  exact (helper_col_sound_c h ha lvl loop headers entries exiting exits doms bnames vnames true).
Qed.
Print Assumptions C06_loop_helper_column_sound.

(* the per-call columns of insert_block_and_control_blocks, extract_region and of an insertion with a region
   predecessor also mean: every decision list that can be walked before the call can be walked, in the strict
   reading, in the hierarchy the implementation produced *)
From V Require Import Model.HierCols Model.RlInsert Model.IbPath Model.ExtractPath Model.CbHierPath.
Theorem C06_control_blocks_column_sound :
  forall h ha lvl new var preds Ss names,
    cbh_col_of h ha lvl new var preds Ss names = 1%Z ->
    forall n e e' ds,
      (exists b p, find h n = Some b /\ n_kind b = KOrig p) -> E (Fc var) e e' ->
      CTrace h (resolve_flat h) true n e ds -> CTrace ha (resolve_flat ha) true n e' ds.
Proof. intros h ha lvl new var preds Ss names. exact (cbh_col_sound_c h ha lvl new var preds Ss names true). Qed.
Print Assumptions C06_control_blocks_column_sound.

Theorem C06_region_extraction_column_sound :
  forall h ha lvl blocks entries hd ex rk rname,
    extract_col_of h ha lvl blocks entries hd ex rk rname = 1%Z ->
    forall n e e' ds,
      (exists b p, find h n = Some b /\ n_kind b = KOrig p) -> E Fx e e' ->
      CTrace h (resolve_flat h) true n e ds -> CTrace ha (resolve_flat ha) true n e' ds.
Proof. intros h ha lvl blocks entries hd ex rk rname. exact (extract_col_sound_c h ha lvl blocks entries hd ex rk rname true). Qed.
Print Assumptions C06_region_extraction_column_sound.

Theorem C06_insertion_with_region_predecessor_column_sound :
  forall h ha new e0 preds cls,
    ins_rl_col_of h ha new e0 preds cls = 7%Z ->
    forall n e e' ds,
      (exists b p, find h n = Some b /\ n_kind b = KOrig p) -> E Fn e e' ->
      CTrace h (resolve_flat h) true n e ds -> CTrace ha (resolve_flat ha) true n e' ds.
Proof. intros h ha new e0 preds cls. exact (ins_rl_col_sound_c h ha new e0 preds cls true). Qed.
Print Assumptions C06_insertion_with_region_predecessor_column_sound.

From V Require Import Model.InsCol.
Theorem C06_single_successor_insertion_column_sound :
  forall h ha lvl new e0 preds cls,
    ins1_col_of h ha lvl new e0 preds cls = 1%Z ->
    forall n e e' ds,
      (exists b p, find h n = Some b /\ n_kind b = KOrig p) -> E Fn e e' ->
      CTrace h (resolve_flat h) true n e ds -> CTrace ha (resolve_flat ha) true n e' ds.
Proof. intros h ha lvl new e0 preds cls. exact (ins1_col_sound_c h ha lvl new e0 preds cls true). Qed.
Print Assumptions C06_single_successor_insertion_column_sound.

(* C06 — control variables are assigned before use and in range, on all paths. *)
From Coq Require Import ZArith List.
From V Require Import Valid.Hier Valid.Walk Valid.FlatRegion Valid.Run.

Theorem C06_checker_sound : forall h, c06_check h = true -> CtrlSafe h.
Proof. exact c06_check_sound. Qed.
Print Assumptions C06_checker_sound.

Theorem C06_closed_set_sound :
  forall h resolve strict fuel R entry,
    ctrl_check h resolve strict fuel R entry = true ->
    forall ds, CTrace h resolve strict entry nil ds.
Proof. exact ctrl_check_sound. Qed.
Print Assumptions C06_closed_set_sound.

Theorem C06_driver_column :
  forall rows g h, decode rows = Some (g, h) -> col 5 rows = 1%Z -> CtrlSafe h.
Proof.
  intros rows g h Hd. destruct (run_instance_sound rows g h Hd) as [_ [_ [_ [_ [A _]]]]]. exact A.
Qed.
Print Assumptions C06_driver_column.

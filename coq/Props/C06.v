(* C06 — control variables are assigned before use and in range, on all paths. *)
From Coq Require Import ZArith List.
From V Require Import Valid.Hier Valid.Walk Valid.FlatRegion Valid.Run.
From Coq Require Import Lia.
From V Require Import Model.Pipe Model.PipeBounded Model.PipeBounded4 Model.Graph Model.Edits Model.JoinPath.

Theorem C06_checker_sound : forall h, c06_check h = true -> CtrlSafe h.
Proof. exact c06_check_sound. Qed.
Print Assumptions C06_checker_sound.

Theorem C06_closed_set_sound :
  forall h resolve strict fuel R entry,
    ctrl_check h resolve strict fuel R entry = true ->
    forall ds, CTrace h resolve strict entry nil ds.
Proof. exact ctrl_check_sound. Qed.
Print Assumptions C06_closed_set_sound.

Theorem C06_driver_column :
  forall rows g h, decode rows = Some (g, h) -> col 5 rows = 1%Z -> CtrlSafe h.
Proof.
  intros rows g h Hd. destruct (run_instance_sound rows g h Hd) as [_ [_ [_ [_ [A _]]]]]. exact A.
Qed.
Print Assumptions C06_driver_column.

(* bounded form over the MODEL of the whole pipeline (nesting as the graphs hold it; the
   implementation's parent pointers are not part of the model) *)
Theorem C06_pipeline_model_le4 :
  forall n g, (n <= 4)%nat -> In g (closed_graphs n) ->
    exists s0 s1 s2,
      p_stage nmU 0 (init_state g) topU = POk s0 /\ p_stage nmU 1 s0 topU = POk s1 /\
      p_stage nmU 2 s1 topU = POk s2 /\
      CtrlSafe (to_hier s0 topU) /\ CtrlSafe (to_hier s1 topU) /\ CtrlSafe (to_hier s2 topU).
Proof.
  intros n g Hn Hin. destruct (pipeline_good_le4 n g Hn Hin) as [s0 [s1 [s2 [A0 [B0 [A1 [B1 [A2 B2]]]]]]]].
  exists s0, s1, s2. split; [exact A0|]. split; [exact A1|]. split; [exact A2|].
  split; [apply B0|]. split; [apply B1|apply B2].
Qed.
Print Assumptions C06_pipeline_model_le4.

(* the first stage, for ALL graphs (no bound): the closed graph reads no control variable and every decision list can be walked to its end *)
Theorem C06_closing_ctrl_safe :
  forall g top fresh en g',
    Input g top fresh -> oentry (og g) = Some en -> join_returns g fresh 3 = Ok g' -> CtrlSafe (ehier top g').
Proof. exact join_returns_ctrl. Qed.
Print Assumptions C06_closing_ctrl_safe.

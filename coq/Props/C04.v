(* C04 — the region hierarchy is self-consistent. *)
From Coq Require Import ZArith List.
Import ListNotations.
From V Require Import Valid.Hier Valid.FlatRegion Valid.Wf Valid.Run.
From Coq Require Import Lia.
From V Require Import Model.Pipe Model.PipeBounded Model.PipeBounded4 Model.Graph Model.Edits Model.JoinPath.
From V Require Model.Extract Model.ExtractPath Model.ExtractWf.

Theorem C04_checker_sound : forall h, wf_check h = true -> WfHier h.
Proof. exact wf_check_sound. Qed.
Print Assumptions C04_checker_sound.

Theorem C04_driver_column :
  forall rows g h, decode rows = Some (g, h) -> col 3 rows = 1%Z -> WfHier h.
Proof.
  intros rows g h Hd. destruct (run_instance_sound rows g h Hd) as [_ [_ [A _]]]. exact A.
Qed.
Print Assumptions C04_driver_column.

(* bounded form over the MODEL of the whole pipeline (nesting as the graphs hold it; the
   implementation's parent pointers are not part of the model) *)
Theorem C04_pipeline_model_le4 :
  forall n g, (n <= 4)%nat -> In g (closed_graphs n) ->
    exists s0 s1 s2,
      p_stage nmU 0 (init_state g) topU = POk s0 /\ p_stage nmU 1 s0 topU = POk s1 /\
      p_stage nmU 2 s1 topU = POk s2 /\
      WfHier (to_hier s0 topU) /\ WfHier (to_hier s1 topU) /\ WfHier (to_hier s2 topU).
Proof.
  intros n g Hn Hin. destruct (pipeline_good_le4 n g Hn Hin) as [s0 [s1 [s2 [A0 [B0 [A1 [B1 [A2 B2]]]]]]]].
  exists s0, s1, s2. split; [exact A0|]. split; [exact A1|]. split; [exact A2|].
  split; [apply B0|]. split; [apply B1|apply B2].
Qed.
Print Assumptions C04_pipeline_model_le4.

(* the first stage, for ALL graphs (no bound): closing the graph yields a well-formed (flat) hierarchy *)
Theorem C04_closing_wellformed :
  forall g top fresh en g',
    Input g top fresh -> oentry (og g) = Some en -> join_returns g fresh 3 = Ok g' -> WfHier (ehier top g').
Proof. exact join_returns_wf. Qed.
Print Assumptions C04_closing_wellformed.

(* region extraction, for ALL hierarchies (no bound), over Extract.extract (the line-by-line model of
   extract_region, compared with the code on every call the pipeline makes): names stay unique; the new
   region has the level that holds it as parent (recorded and actual), its header and exiting block lie
   inside it, its targets are its exiting block's targets, the level lists it and the wrapped blocks
   point to it *)
Theorem C04_region_extraction_names_unique :
  forall hd rname h lvl blocks entries ex rk h',
    V.Model.Extract.extract h lvl blocks entries hd ex rk rname = V.Model.Extract.XOk h' ->
    NoDup (names h) -> find h rname = None -> NoDup (names h').
Proof. exact V.Model.ExtractWf.extract_names_unique. Qed.
Print Assumptions C04_region_extraction_names_unique.

Theorem C04_region_extraction_consistent :
  forall hd rname h lvl blocks entries ex rk h',
    rname <> hd ->
    V.Model.Extract.extract h lvl blocks entries hd ex rk rname = V.Model.Extract.XOk h' ->
    find h rname = None ->
    (forall x n, find h x = Some n -> is_region n = false -> V.Model.ExtractPath.Good hd rname n) ->
    (exists nl, find h lvl = Some nl /\ is_region nl = true) ->
    In hd blocks -> In ex blocks -> ex <> lvl ->
    exists nr nxe nl',
      find h' rname = Some nr /\ n_parent nr = lvl /\
      n_kind nr = KRegion rk hd ex (zsort blocks) lvl true /\
      In hd (zsort blocks) /\ In ex (zsort blocks) /\
      find h' ex = Some nxe /\ n_parent nxe = rname /\
      n_jt nr = jump_targets nxe /\
      find h' lvl = Some nl' /\ In rname (V.Model.ExtractPath.children nl') /\
      (forall x n, In x blocks -> x <> lvl -> find h x = Some n ->
         exists n', find h' x = Some n' /\ n_parent n' = rname).
Proof.
  intros hd rname h lvl blocks entries ex rk h' Hne Hx Hf HG Hl.
  exact (V.Model.ExtractPath.region_consistent hd rname Hne h lvl blocks entries ex rk h' Hx Hf HG Hl).
Qed.
Print Assumptions C04_region_extraction_consistent.

(* every edit that works on the dictionary of ONE level and is written back into the hierarchy - the loop
   rotation with one or several headers, the early return, the insertion of a block in front of one successor
   (Model/LoopHier.v, Model/InsHier.v) - keeps a self-consistent hierarchy self-consistent, provided the new
   dictionary keeps the level's children, adds only unused names, leaves region blocks as they are, keeps every
   arc inside the level (the exiting block's may leave as the region's own do) and keeps the exiting block's
   outgoing targets (Model/LevelWf.v; all eight clauses of WfHier).  The conditions are one boolean
   (LevelWfRun.level_okb), evaluated with wf_check of the hierarchy before the call on every call of
   loop_restructure_helper and insert_block the pipeline makes. *)
From V Require Import Model.Edits Model.LoopHier Model.LevelWf Model.LevelWfRun.
Theorem C04_level_edit_keeps_hierarchy_consistent_b :
  forall h lvl g', wf_check h = true -> level_okb h lvl g' = true -> WfHier (write_back h lvl g').
Proof. exact level_edit_keeps_wf_b. Qed.
Print Assumptions C04_level_edit_keeps_hierarchy_consistent_b.

(* non-vacuity: the self loop 6 of the outermost level rotated (assignment blocks 30 31, latch 40) *)
Local Open Scope Z_scope.
Example C04_level_edit_example :
  let h := [ mkNode 1 0 [] [] (KRegion 1 0 0 [5; 6; 7] 0 true);
             mkNode 5 1 [6] [] (KOrig 1);
             mkNode 6 1 [6; 7] [] (KOrig 1);
             mkNode 7 1 [] [] (KOrig 1) ] in
  let g' := [ (5, mkE [6] [] (EPlain 100)); (7, mkE [] [] (EPlain 100));
              (30, mkE [40] [] (EAssign [(9, 0)])); (31, mkE [40] [] (EAssign [(9, 1)]));
              (6, mkE [30; 31] [] (EPlain 100));
              (40, mkE [7; 6] [6] (EBranch 12 9 [(0, 6); (1, 7)])) ] in
  wf_check h = true /\ level_okb h 1 g' = true.
Proof. vm_compute. split; reflexivity. Qed.

(* what the per-call column means: when it is 1, the hierarchy the implementation produced (ha) is
   self-consistent - the hierarchy before the call passed wf_check, the dictionary of the level read off ha
   meets level_okb, and ha is the written-back hierarchy up to the order of the node list, which keeps WfHier
   (LevelWfRun.compared_equal_keeps_wf) *)
Theorem C04_level_edit_column_sound :
  forall h ha lvl, wf_level_col h ha lvl = 1%Z -> WfHier ha.
Proof. exact wf_level_col_sound. Qed.
Print Assumptions C04_level_edit_column_sound.

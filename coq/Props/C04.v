(* C04 — the region hierarchy is self-consistent. *)
From Coq Require Import ZArith List.
From V Require Import Valid.Hier Valid.FlatRegion Valid.Wf Valid.Run.

Theorem C04_checker_sound : forall h, wf_check h = true -> WfHier h.
Proof. exact wf_check_sound. Qed.
Print Assumptions C04_checker_sound.

Theorem C04_driver_column :
  forall rows g h, decode rows = Some (g, h) -> col 3 rows = 1%Z -> WfHier h.
Proof.
  intros rows g h Hd. destruct (run_instance_sound rows g h Hd) as [_ [_ [A _]]]. exact A.
Qed.
Print Assumptions C04_driver_column.

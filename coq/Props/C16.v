(* C16 — iteration and the region-concealing view enumerate exactly the graph.
   The breadth-first model (Iter.bfs) has the queue discipline of the code;
   the theorems hold for every graph and every successor function. *)
From Coq Require Import List ZArith Permutation.
Import ListNotations.
From V Require Import Valid.Hier Valid.FlatRegion Model.Graph Model.Iter Model.IterHier.

(* any level, any successor function: the iterator terminates, yields each
   item at most once, the head first, only items of the level, every item
   reachable from the head, and every other item after one of its predecessors *)
Theorem C16_bfs :
  forall level succs head, NoDup level -> inlevel level head = true ->
    exists l, view level succs head = Some l /\ NoDup l /\ hd_error l = Some head /\
      (forall x, In x l -> In x level) /\
      (forall x, Reach (succs_in level succs) head x -> In x l) /\
      (forall x, In x l -> x = head \/ Before succs l x).
Proof. exact view_spec. Qed.
Print Assumptions C16_bfs.

(* the region-concealing view of the graph of region p (a region is continued
   at the targets of its exiting block): exactly the graph's own items *)
Theorem C16_concealed_view :
  forall h p, NoDup (children_of h p) -> connectedb h (view_succs h) p = true ->
    exists hd l, graph_head h (children_of h p) = Some hd /\ view_of h p = Some l /\
      Permutation l (children_of h p) /\ hd_error l = Some hd /\
      forall x, In x l -> x = hd \/ Before (view_succs h) l x.
Proof. exact view_of_spec. Qed.
Print Assumptions C16_concealed_view.

(* SCFG.__iter__: every block and region of the whole hierarchy exactly once
   (a permutation of all descendants), starting with the head *)
Theorem C16_iter :
  forall h fuel p, all_connectedb h fuel p = true ->
    exists l, iter_of h fuel p = Some l /\ Permutation l (descendants h fuel p) /\
              hd_error l = graph_head h (children_of h p).
Proof. exact iter_of_spec. Qed.
Print Assumptions C16_iter.

(* non-vacuity: a loop region (10) with header 2 and exiting latch 3 inside a top region (1) *)
Local Open Scope Z_scope.
Definition ex_h : hier :=
  [ mkNode 1 0 [] [] (KRegion 1 0 0 [5; 10; 4] 0 true);
    mkNode 5 1 [10] [] (KOrig 0);
    mkNode 10 1 [4] [] (KRegion 2 2 3 [2; 3] 1 true);
    mkNode 2 10 [3] [] (KOrig 0);
    mkNode 3 10 [4; 2] [2] (KOrig 0);
    mkNode 4 1 [] [] (KOrig 0) ].
Example C16_example :
  view_of ex_h 1 = Some [5; 10; 4] /\ view_of ex_h 10 = Some [2; 3] /\
  iter_of ex_h 7 1 = Some [5; 10; 2; 3; 4] /\ all_connectedb ex_h 7 1 = true /\
  connectedb ex_h (view_succs ex_h) 1 = true.
Proof. vm_compute. repeat split; reflexivity. Qed.

(* C12 — results are deterministic across processes and hash seeds.
   What a proof can say: (1) every place where the library iterates over a
   set (inventory regenerated on every run) is a reviewed site; (2) at the
   reviewed sites whose class is proved, the result is invariant under any
   permutation of the set's enumeration order.  The hash function of CPython
   itself is not modelled; the cross-seed runs cover it. *)
From Coq Require Import List ZArith Permutation String.
Import ListNotations.
From V Require Import Valid.Hier Model.Graph Model.Queries Model.SetOrder Gen.SetSites.

Lemma C12_translation_accepted : sets_translation_ok = true.
Proof. reflexivity. Qed.

(* no unreviewed iteration over a set *)
Theorem C12_sites_covered : sites_covered set_sites = true /\ Nat.leb 10 (List.length set_sites) = true.
Proof. vm_compute. split; reflexivity. Qed.
Print Assumptions C12_sites_covered.

Theorem C12_sorted_is_order_free : forall l l', Permutation l l' -> zsort l = zsort l'.
Proof. exact zsort_perm. Qed.
Print Assumptions C12_sorted_is_order_free.

Theorem C12_exiting_exits_order_free :
  forall g sub sub', Permutation sub sub' -> exiting_exits g sub = exiting_exits g sub'.
Proof. exact exiting_exits_perm. Qed.
Print Assumptions C12_exiting_exits_order_free.

Theorem C12_headers_entries_order_free :
  forall g sub sub' pe, Permutation sub sub' -> headers_entries g sub pe = headers_entries g sub' pe.
Proof. exact headers_entries_perm. Qed.
Print Assumptions C12_headers_entries_order_free.

Theorem C12_delete_keys_order_free :
  forall (A : Type) (g : list (Z * A)) names names',
    Permutation names names' -> fold_left del_key names g = fold_left del_key names' g.
Proof. exact @remove_blocks_perm. Qed.
Print Assumptions C12_delete_keys_order_free.

Theorem C12_singleton_or_membership_use :
  forall (A : Type) (l l' : list A), Permutation l l' ->
    List.length l = List.length l' /\ (forall x, In x l <-> In x l') /\ (List.length l = 1%nat -> l = l').
Proof. exact @singleton_perm. Qed.
Print Assumptions C12_singleton_or_membership_use.

Theorem C12_intersection_order_free :
  forall u ls ls', Permutation ls ls' ->
    forall x, In x (fold_left inter ls u) <-> In x (fold_left inter ls' u).
Proof. exact inter_all_perm. Qed.
Print Assumptions C12_intersection_order_free.

(* the dominator work-list (two sites of class 'fixpoint': todo.extend(succs_table[n]) pushes the successors
   in the iteration order of a set, `for e in entries` seeds the table in the iteration order of a set): for
   ALL graphs, two runs that enumerate the same successor sets and the same entry points in ANY two orders
   both return and give the same dominator set for every node.  Proved over the
   line-by-line model Model/DomWl.v (tied to the code by the C13 check). *)
From V Require Import Model.DomWl Model.DomWlProof.
Theorem C12_dominators_order_free :
  forall nodes preds succs1 succs2 ents1 ents2 B1 B2 fuel1 fuel2,
    NoDup nodes ->
    (forall n, In n nodes -> incl (preds n) nodes) ->
    (forall n, In n nodes -> incl (succs1 n) nodes) ->
    (forall n p, In n nodes -> In p nodes -> (In p (preds n) <-> In n (succs1 p))) ->
    (forall x y, In y (succs1 x) <-> In y (succs2 x)) ->
    (forall n, In n ents1 <-> In n nodes /\ preds n = []) ->
    (forall n, In n ents2 <-> In n nodes /\ preds n = []) ->
    (forall n, (List.length (succs1 n) <= B1)%nat) -> (forall n, (List.length (succs2 n) <= B2)%nat) ->
    ents1 <> [] ->
    (mu nodes B1 (init_D nodes ents1) (init_stk nodes ents1) < fuel1)%nat ->
    (mu nodes B2 (init_D nodes ents2) (init_stk nodes ents2) < fuel2)%nat ->
    exists D1 l1 D2 l2,
      find_dominators nodes ents1 preds succs1 fuel1 = WOk D1 l1 /\
      find_dominators nodes ents2 preds succs2 fuel2 = WOk D2 l2 /\
      forall m, In m nodes -> dget D1 m = dget D2 m.
Proof. exact find_dominators_order_independent. Qed.
Print Assumptions C12_dominators_order_free.

(* _imm_doms (site `for v in list(vs)`: a snapshot of a set, enumerated in hash order): when the strict
   dominator sets are chains - witnessed by an immediate-dominator table, a condition the checker evaluates
   on every call of the pipeline with the returned dictionary as witness - the result is that table for EVERY
   enumeration order (Model/ImmDom.v line by line, Model/ImmDomProof.v) *)
From V Require Import Model.ImmDom Model.ImmDomProof Model.ImmDomRun.
Theorem C12_imm_doms_order_free :
  forall snap1 snap2 doms w fuel1 fuel2,
    (forall k vs x, In x (snap1 k vs) <-> In x vs) -> (forall k vs x, In x (snap2 k vs) <-> In x vs) ->
    imm_pre doms w = true -> (2 <= fuel1)%nat -> (2 <= fuel2)%nat ->
    imm_doms snap1 fuel1 doms = imm_doms snap2 fuel2 doms.
Proof.
  intros snap1 snap2 doms w fuel1 fuel2 S1 S2 Hp F1 F2.
  rewrite (imm_doms_correct_b snap1 doms w fuel1 S1 Hp F1), (imm_doms_correct_b snap2 doms w fuel2 S2 Hp F2). reflexivity.
Qed.
Print Assumptions C12_imm_doms_order_free.

(* ASTCFG.prune_unreachable (site `block = to_visit.pop()` on a set of strings): whatever element the set
   hands out, the loop ends within the stated fuel and `reachable` is the set of blocks reachable from the
   entry (Model/PruneWl.v) *)
From V Require Import Model.Graph Model.PruneWl.
Theorem C12_prune_unreachable_order_free :
  forall succ pick1 pick2 start U fuel1 fuel2,
    (forall l, l <> [] -> exists x l', pick1 l = Some (x, l')) ->
    (forall l x l', pick1 l = Some (x, l') -> In x l /\ (forall y, In y l' <-> In y l /\ y <> x) /\ NoDup l') ->
    (forall l, l <> [] -> exists x l', pick2 l = Some (x, l')) ->
    (forall l x l', pick2 l = Some (x, l') -> In x l /\ (forall y, In y l' <-> In y l /\ y <> x) /\ NoDup l') ->
    In start U ->
    (forall x l y, In x U -> succ x = Some l -> In y l -> In y U) ->
    (forall x, In x U -> succ x <> None) ->
    ((List.length U + 1) * (List.length U + 1) < fuel1)%nat -> ((List.length U + 1) * (List.length U + 1) < fuel2)%nat ->
    exists R1 R2, wl succ pick1 fuel1 [start] [] = POk R1 /\ wl succ pick2 fuel2 [start] [] = POk R2 /\
      forall x, In x R1 <-> In x R2.
Proof. exact prune_reachable_order_free. Qed.
Print Assumptions C12_prune_unreachable_order_free.

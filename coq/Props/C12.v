(* C12 — results are deterministic across processes and hash seeds.
   What a proof can say: (1) every place where the library iterates over a
   set (inventory regenerated on every run) is a reviewed site; (2) at the
   reviewed sites whose class is proved, the result is invariant under any
   permutation of the set's enumeration order.  The hash function of CPython
   itself is not modelled; the cross-seed runs cover it. *)
From Coq Require Import List ZArith Permutation String.
Import ListNotations.
From V Require Import Valid.Hier Model.Graph Model.Queries Model.SetOrder Gen.SetSites.

Lemma C12_translation_accepted : sets_translation_ok = true.
Proof. reflexivity. Qed.

(* no unreviewed iteration over a set *)
Theorem C12_sites_covered : sites_covered set_sites = true /\ Nat.leb 10 (List.length set_sites) = true.
Proof. vm_compute. split; reflexivity. Qed.
Print Assumptions C12_sites_covered.

Theorem C12_sorted_is_order_free : forall l l', Permutation l l' -> zsort l = zsort l'.
Proof. exact zsort_perm. Qed.
Print Assumptions C12_sorted_is_order_free.

Theorem C12_exiting_exits_order_free :
  forall g sub sub', Permutation sub sub' -> exiting_exits g sub = exiting_exits g sub'.
Proof. exact exiting_exits_perm. Qed.
Print Assumptions C12_exiting_exits_order_free.

Theorem C12_headers_entries_order_free :
  forall g sub sub' pe, Permutation sub sub' -> headers_entries g sub pe = headers_entries g sub' pe.
Proof. exact headers_entries_perm. Qed.
Print Assumptions C12_headers_entries_order_free.

Theorem C12_delete_keys_order_free :
  forall (A : Type) (g : list (Z * A)) names names',
    Permutation names names' -> fold_left del_key names g = fold_left del_key names' g.
Proof. exact @remove_blocks_perm. Qed.
Print Assumptions C12_delete_keys_order_free.

Theorem C12_singleton_or_membership_use :
  forall (A : Type) (l l' : list A), Permutation l l' ->
    List.length l = List.length l' /\ (forall x, In x l <-> In x l') /\ (List.length l = 1%nat -> l = l').
Proof. exact @singleton_perm. Qed.
Print Assumptions C12_singleton_or_membership_use.

Theorem C12_intersection_order_free :
  forall u ls ls', Permutation ls ls' ->
    forall x, In x (fold_left inter ls u) <-> In x (fold_left inter ls' u).
Proof. exact inter_all_perm. Qed.
Print Assumptions C12_intersection_order_free.

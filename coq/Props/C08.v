(* C08 — the graph built from source means what the source means.
   PROVED here: the census half — the three pruning passes remove only blocks
   that cannot be reached from the entry, no-op statements and blocks without
   instructions; every other instruction survives exactly once, in order.
   NOT proved: the semantic half (interpreting the graph equals running the
   function); it is decided by path-exhaustive differential execution of
   generated programs (see the evidence file). *)
From Coq Require Import List ZArith.
Import ListNotations.
From V Require Import Valid.Hier Model.Graph Model.Prune.

Theorem C08_prune_unreachable :
  forall g entry g', prune_unreachable g entry = Some g' ->
    forall x b, In (x, b) g' <-> In (x, b) g /\ Reach (asucc g) entry x.
Proof. exact prune_unreachable_spec. Qed.
Print Assumptions C08_prune_unreachable.

Theorem C08_prune_noops :
  forall g, all_ins (prune_noops g) = filter (fun i => negb (snd i)) (all_ins g) /\
            map (fun p => (fst p, a_jt (snd p))) (prune_noops g) = map (fun p => (fst p, a_jt (snd p))) g.
Proof. exact prune_noops_spec. Qed.
Print Assumptions C08_prune_noops.

Theorem C08_prune_empty :
  forall g g', NoDup (akeys g) -> prune_empty g = Some g' -> all_ins g' = all_ins g.
Proof. exact prune_empty_spec. Qed.
Print Assumptions C08_prune_empty.

(* all three passes: exactly the non-no-op instructions of the reachable blocks survive *)
Theorem C08_census :
  forall g entry g', NoDup (akeys g) -> prune g entry = Some g' ->
    exists g1, (forall x b, In (x, b) g1 <-> In (x, b) g /\ Reach (asucc g) entry x) /\
               all_ins g' = filter (fun i => negb (snd i)) (all_ins g1).
Proof. exact prune_census. Qed.
Print Assumptions C08_census.

(* non-vacuity: `while c: pass` followed by a return; block 5 is unreachable *)
Local Open Scope Z_scope.
Example C08_example :
  prune [ (0, mkA [] [1]); (1, mkA [(10, false)] [2; 4]); (2, mkA [(11, true)] [1]);
          (4, mkA [] [3]); (3, mkA [(12, false)] []); (5, mkA [(13, false)] [3]) ] 0
  = Some [ (0, mkA [] [1]); (1, mkA [(10, false)] [1; 3]); (3, mkA [(12, false)] []) ].
Proof. vm_compute. reflexivity. Qed.

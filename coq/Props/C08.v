(* C08 — the graph built from source means what the source means.
   PROVED here: the census half — the three pruning passes remove only blocks
   that cannot be reached from the entry, no-op statements and blocks without
   instructions; every other instruction survives exactly once, in order.
   PROVED as well (Model/Src.v, SrcProof.v, SrcIdx.v): the semantic half for the
   control skeleton — for EVERY program built from plain statements, pass,
   return, break, continue, if/else, while/else and for/else (in its desugared
   while-form), nested to any depth, for every meaning of the statements and
   tests and every state: whenever the function returns or raises, interpreting
   the graph the front-end model builds block by block returns or raises the same
   way in the same state — and so does the graph after the three pruning passes
   (SrcPrune.v), started at the entry pruning leaves.  NOT proved: operands of and/or (known finding K2), that the desugared
   for-loop equals Python's for (known finding K3), diverging runs.  Those, and
   the tie of the model to the code, are decided by the correspondence check and
   by path-exhaustive differential execution (see the evidence file). *)
From Coq Require Import List ZArith Lia.
Import ListNotations.
From V Require Import Valid.Hier Model.Graph Model.Prune Model.Src Model.SrcProof Model.SrcIdx Model.SrcPrune.
From V Require Model.SrcE Model.SrcERefute Model.SrcEProof Model.SrcEIdx Model.SrcEPrune.

Theorem C08_prune_unreachable :
  forall g entry g', prune_unreachable g entry = Some g' ->
    forall x b, In (x, b) g' <-> In (x, b) g /\ Reach (asucc g) entry x.
Proof. exact prune_unreachable_spec. Qed.
Print Assumptions C08_prune_unreachable.

Theorem C08_prune_noops :
  forall g, all_ins (prune_noops g) = filter (fun i => negb (snd i)) (all_ins g) /\
            map (fun p => (fst p, a_jt (snd p))) (prune_noops g) = map (fun p => (fst p, a_jt (snd p))) g.
Proof. exact prune_noops_spec. Qed.
Print Assumptions C08_prune_noops.

Theorem C08_prune_empty :
  forall g g', NoDup (akeys g) -> prune_empty g = Some g' -> all_ins g' = all_ins g.
Proof. exact prune_empty_spec. Qed.
Print Assumptions C08_prune_empty.

(* all three passes: exactly the non-no-op instructions of the reachable blocks survive *)
Theorem C08_census :
  forall g entry g', NoDup (akeys g) -> prune g entry = Some g' ->
    exists g1, (forall x b, In (x, b) g1 <-> In (x, b) g /\ Reach (asucc g) entry x) /\
               all_ins g' = filter (fun i => negb (snd i)) (all_ins g1).
Proof. exact prune_census. Qed.
Print Assumptions C08_census.

(* non-vacuity: `while c: pass` followed by a return; block 5 is unreachable *)
Local Open Scope Z_scope.
Example C08_example :
  prune [ (0, mkA [] [1]); (1, mkA [(10, false)] [2; 4]); (2, mkA [(11, true)] [1]);
          (4, mkA [] [3]); (3, mkA [(12, false)] []); (5, mkA [(13, false)] [3]) ] 0
  = Some [ (0, mkA [] [1]); (1, mkA [(10, false)] [1; 3]); (3, mkA [(12, false)] []) ].
Proof. vm_compute. reflexivity. Qed.

(* ---------- the semantic half, on the control skeleton ---------- *)
Theorem C08_block_indices_distinct : forall body, NoDup (map b_idx (build body)).
Proof. exact build_indices_distinct. Qed.
Print Assumptions C08_block_indices_distinct.

Theorem C08_graph_means_source :
  forall (state : Type) (act : Z -> state -> option state) (test : Z -> state -> option (bool * state))
         (body : stmts) (fuel : nat) (s : state) (o : outcome state),
    exec state act test fuel body s = o ->
    (exists a s', o = ORet a s') \/ (exists a, o = ORaise a) ->
    exists fuel', run state act test (build body) fuel' 0 s = o.
Proof.
  intros state act test body fuel s o He Ho.
  exact (front_end_correct state act test body fuel s o (build_indices_distinct body) He Ho).
Qed.
Print Assumptions C08_graph_means_source.

(* the same for the graph after prune_unreachable, prune_noops and prune_empty *)
Theorem C08_pruned_graph_means_source :
  forall (state : Type) (act : Z -> state -> option state) (test : Z -> state -> option (bool * state))
         (body : stmts) (fuel : nat) (s : state) (o : outcome state) (G' : list blk) (e' : Z),
    exec state act test fuel body s = o ->
    (exists a s', o = ORet a s') \/ (exists a, o = ORaise a) ->
    sprune (build body) 0 = Some (G', e') ->
    exists fuel', run state act test G' fuel' e' s = o.
Proof.
  intros state act test body fuel s o G' e' He Ho Hp.
  destruct (C08_graph_means_source state act test body fuel s o He Ho) as [f1 H1].
  exact (prune_keeps_meaning state act test (build body) 0 G' e' (build_tests_last body) Hp f1 s o H1 Ho).
Qed.
Print Assumptions C08_pruned_graph_means_source.

(* non-vacuity: a state that records every statement and test executed, tests answered
   from a decision list;   while c1: (if c2: break else: a3); a4   else: a5;   return r6 *)
Definition xstate := (list Z * list bool)%type.
Definition tact (a : Z) (s : xstate) : option xstate := Some (a :: fst s, snd s).
Definition ttest (c : Z) (s : xstate) : option (bool * xstate) :=
  match snd s with [] => None | d :: ds => Some (d, (c :: fst s, ds)) end.
Definition prog1 : stmts :=
  SCons (SWhile 1 (SCons (SIf 2 (SCons (SBreak 7) SNil) (SCons (SAct 3) SNil)) (SCons (SAct 4) SNil))
                  (SCons (SAct 5) SNil))
        (SCons (SRet 6) SNil).
Example C08_skeleton_example :
  exec xstate tact ttest 20 prog1 ([], [true; false; true; true]) = ORet 6 ([6; 2; 1; 4; 3; 2; 1], []) /\
  run xstate tact ttest (build prog1) 20 0 ([], [true; false; true; true]) = ORet 6 ([6; 2; 1; 4; 3; 2; 1], []) /\
  exec xstate tact ttest 20 prog1 ([], [true; false; false]) = ORet 6 ([6; 5; 1; 4; 3; 2; 1], []) /\
  run xstate tact ttest (build prog1) 20 0 ([], [true; false; false]) = ORet 6 ([6; 5; 1; 4; 3; 2; 1], []) /\
  match sprune (build prog1) 0 with
  | Some (G', e') => run xstate tact ttest G' 20 e' ([], [true; false; false]) = ORet 6 ([6; 5; 1; 4; 3; 2; 1], [])
                     /\ (length G' < length (build prog1))%nat
  | None => False
  end.
Proof. vm_compute. repeat split; lia. Qed.

(* ---------- where the full statement is false of the faithful model (Model/SrcE.v: the front end
   with handle_expression / handle_bool_op): refuted by witnesses; replayed on the implementation
   they are the known findings K-expr and K2 ---------- *)
Theorem C08_expr_order_refuted :
  exists s1 s2, SrcE.exec SrcERefute.tstate SrcERefute.t_aval SrcERefute.t_opf SrcERefute.t_act SrcERefute.t_foract SrcERefute.t_fortest 10 SrcERefute.prog_kexpr [] = SrcE.ORet 9 s1 /\
                SrcE.run SrcERefute.tstate SrcERefute.t_aval SrcERefute.t_opf SrcERefute.t_act SrcERefute.t_foract SrcERefute.t_fortest (SrcE.build SrcERefute.prog_kexpr) 10 0 [] [] = SrcE.ORet 9 s2 /\
                s1 <> s2.
Proof. exact SrcERefute.expr_order_refuted. Qed.
Print Assumptions C08_expr_order_refuted.

Theorem C08_nested_boolop_refuted :
  exists s1 s2, SrcE.exec SrcERefute.tstate SrcERefute.t_aval SrcERefute.t_opf SrcERefute.t_act SrcERefute.t_foract SrcERefute.t_fortest 10 SrcERefute.prog_k2 [] = SrcE.ORet 9 s1 /\
                SrcE.run SrcERefute.tstate SrcERefute.t_aval SrcERefute.t_opf SrcERefute.t_act SrcERefute.t_foract SrcERefute.t_fortest (SrcE.build SrcERefute.prog_k2) 10 0 [] [] = SrcE.ORet 9 s2 /\
                s1 <> s2.
Proof. exact SrcERefute.nested_boolop_refuted. Qed.
Print Assumptions C08_nested_boolop_refuted.

(* ---------- and where it is true: every program whose and/or sit where the transformer keeps the
   order of evaluation (SrcEProof.good_stmts: flat chains of any length; an and/or as an operand only
   if everything before it in the same comparison / operation / call is itself an and/or and the last
   operand of a two-operand and/or is free of and/or) ---------- *)
Theorem C08_graph_means_source_with_and_or :
  forall (state : Type) (aval : Z -> state -> option (Z * state))
         (opf : Z -> list Z -> state -> option (Z * state))
         (act : Z -> option Z -> state -> option state)
         (foract : Z -> Z -> Z -> option Z -> state -> option state)
         (fortest : Z -> state -> option (bool * state))
         (body : SrcE.stmts) (fuel : nat) (s : state) (o : SrcE.outcome state),
    SrcEProof.good_stmts body = true ->
    SrcE.exec state aval opf act foract fortest fuel body s = o ->
    (exists a s', o = SrcE.ORet a s') \/ o = SrcE.ORaise ->
    exists fuel', SrcE.run state aval opf act foract fortest (SrcE.build body) fuel' 0 [] s = o.
Proof.
  intros state aval opf act foract fortest body fuel s o Hg He Ho.
  exact (SrcEProof.front_end_correct_e state aval opf act foract fortest body fuel s o Hg
           (SrcEIdx.build_indices_distinct body) He Ho).
Qed.
Print Assumptions C08_graph_means_source_with_and_or.

Theorem C08_pruned_graph_means_source_with_and_or :
  forall (state : Type) (aval : Z -> state -> option (Z * state))
         (opf : Z -> list Z -> state -> option (Z * state))
         (act : Z -> option Z -> state -> option state)
         (foract : Z -> Z -> Z -> option Z -> state -> option state)
         (fortest : Z -> state -> option (bool * state))
         (body : SrcE.stmts) (fuel : nat) (s : state) (o : SrcE.outcome state) (G' : list SrcE.blk) (e' : Z),
    SrcEProof.good_stmts body = true ->
    SrcE.exec state aval opf act foract fortest fuel body s = o ->
    (exists a s', o = SrcE.ORet a s') \/ o = SrcE.ORaise ->
    SrcEPrune.sprune (SrcE.build body) 0 = Some (G', e') ->
    exists fuel', SrcE.run state aval opf act foract fortest G' fuel' e' [] s = o.
Proof.
  intros state aval opf act foract fortest body fuel s o G' e' Hg He Ho Hp.
  destruct (C08_graph_means_source_with_and_or state aval opf act foract fortest body fuel s o Hg He Ho) as [f1 H1].
  exact (SrcEPrune.prune_keeps_meaning state aval opf act foract fortest (SrcE.build body) 0 G' e'
           (SrcEPrune.build_tests_last body) Hp f1 [] s o H1 Ho).
Qed.
Print Assumptions C08_pruned_graph_means_source_with_and_or.

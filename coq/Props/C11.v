(* C11 — unsupported source constructs are refused, never mistranslated.
   Gen/Dispatch.v holds the dispatcher of handle_ast_node, the statement
   fields each handler descends into and the statement classes of the running
   interpreter's ast module, all re-read on every run. *)
From Coq Require Import String List Bool.
Import ListNotations.
From V Require Import Model.Front Gen.Dispatch.
Local Open Scope string_scope.

Definition act (k : string) : action := action_of dispatch dispatch_default stmt_kinds k.
Definition kind_names : list string := map (fun e => fst (fst e)) stmt_kinds.

(* the supported subset, as the property states it *)
Definition supported : list string :=
  ["FunctionDef"; "Assign"; "AugAssign"; "Expr"; "Return"; "Pass"; "Break"; "Continue"; "If"; "While"; "For"].

Definition is_refuse (a : action) : bool := match a with ARefuse => true | _ => false end.

Lemma C11_translation_accepted : dispatch_translation_ok = true.
Proof. reflexivity. Qed.

(* every statement class of this interpreter outside the supported subset
   (with, try, raise, assert, delete, global, nonlocal, import, class and
   async definitions, match, annotated assignment, type alias, ...) reaches
   the not-implemented arm; the interpreter knows all supported ones *)
Theorem C11_every_other_kind_refused :
  forallb (fun k => smem k supported || is_refuse (act k)) kind_names = true /\
  forallb (fun k => smem k kind_names && negb (is_refuse (act k))) supported = true /\
  Nat.leb 20 (length kind_names) = true.
Proof. vm_compute. repeat split; reflexivity. Qed.
Print Assumptions C11_every_other_kind_refused.

(* the chain ends in the not-implemented arm: no statement can fall through *)
Theorem C11_default_refuses : dispatch_default = ARefuse.
Proof. reflexivity. Qed.
Print Assumptions C11_default_refuses.

(* handlers that descend visit every statement-list field of their class; leaf classes have none *)
Theorem C11_every_statement_position_visited : covers dispatch dispatch_default visits stmt_kinds = true.
Proof. vm_compute. reflexivity. Qed.
Print Assumptions C11_every_statement_position_visited.

(* hence, for statement trees of ANY depth: if the front end accepts a module
   body, no live statement anywhere below it (live = not after a return, break
   or continue in its own suite, i.e. not dead code) is of a refused kind, and
   the only function definition is the first top-level node *)
Theorem C11_refused_at_any_depth :
  forall fuel t0 rest,
    front_status dispatch dispatch_default visits stmt_kinds jump_kinds fuel (t0 :: rest) = SOk ->
    act (kind_of t0) = AFun ->
    forall c n, In c (live stmt_kinds jump_kinds (t0 :: rest)) -> Desc stmt_kinds jump_kinds c n ->
      act (kind_of n) <> ARefuse /\ (act (kind_of n) = AFun -> n = t0).
Proof.
  intros fuel t0 rest. apply front_accepts_nothing_unsupported. exact C11_every_statement_position_visited.
Qed.
Print Assumptions C11_refused_at_any_depth.

(* input that is not a function definition is refused (by the assertion) *)
Theorem C11_non_function_refused :
  forall fuel k slots rest, act k <> AFun -> smem "FunctionDef" (ancestors stmt_kinds k) = false ->
    front_status dispatch dispatch_default visits stmt_kinds jump_kinds fuel (Node k slots :: rest) <> SOk.
Proof.
  intros fuel k slots rest _ H. unfold front_status. rewrite H. discriminate.
Qed.
Print Assumptions C11_non_function_refused.

(* non-vacuity: a with-statement in the else branch of an if inside a loop body is refused;
   the same tree without it is accepted *)
Definition leaf k := Node k [].
Definition ex_bad :=
  [Node "FunctionDef" [("body", [Node "While" [("body", [Node "If" [("body", [leaf "Pass"]);
                                                                   ("orelse", [leaf "With"])]]);
                                               ("orelse", [])]; leaf "Return"])]].
Definition ex_good :=
  [Node "FunctionDef" [("body", [Node "While" [("body", [Node "If" [("body", [leaf "Pass"]);
                                                                   ("orelse", [leaf "Break"])]]);
                                               ("orelse", [])]; leaf "Return"])]].
Example C11_example :
  front_status dispatch dispatch_default visits stmt_kinds jump_kinds 10 ex_bad = SNotImplemented /\
  front_status dispatch dispatch_default visits stmt_kinds jump_kinds 10 ex_good = SOk /\
  front_status dispatch dispatch_default visits stmt_kinds jump_kinds 10
    [Node "FunctionDef" [("body", [Node "FunctionDef" [("body", [leaf "Return"])]; leaf "Return"])]]
    = SNotImplemented /\
  front_status dispatch dispatch_default visits stmt_kinds jump_kinds 10 [leaf "Assign"] = SAssertion.
Proof. vm_compute. repeat split; reflexivity. Qed.

(* Extraction of the executable checkers.  ExtrOcamlBasic only: bool, option,
   list, prod, unit, sumbool become OCaml's; Z, positive, N, nat stay the
   extracted inductives.  No Extract Constant. *)
From Coq Require Import ExtrOcamlBasic ZArith List.
From V Require Import Valid.Dispatch.
Extraction Language OCaml.
Extraction "vchk.ml" run_any.
